package main

// Loading of /repo (go/packages + go/ssa), lookup helpers.

import (
	"fmt"
	"go/constant"
	"go/token"
	"go/types"
	"os"
	"strings"
	"sync"

	"golang.org/x/tools/go/packages"
	"golang.org/x/tools/go/ssa"
	"golang.org/x/tools/go/ssa/ssautil"
)

type Program struct {
	root          string
	fset          *token.FileSet
	pkgs          []*packages.Package
	ssa           *ssa.Program
	spkgs         map[string]*ssa.Package // by short name
	tpkgs         map[string]*types.Package
	cs            *ContractSet
	contracts     map[string]*Contract // by fullKey
	funcs         map[string]*ssa.Function
	files         map[string][]byte
	usedContracts map[string]bool
	libCalls      map[string]bool
	ufDecls       map[string]string
	specLib       string
	specLibNames  map[string]bool
	ground        *GroundData
	mu            sync.Mutex
	known         map[string][]KnownFinding // by obligation base key
	groundErr     error
	usedGround    map[string]bool
	inlined       map[string]bool
	regexPatterns map[string]string // "g:pkg.name" -> pattern text, for globals set by regexp.MustCompile in package init
}

func loadProgram(root string) (*Program, error) {
	cfg := &packages.Config{
		Mode:       packages.LoadAllSyntax,
		Dir:        root,
		BuildFlags: []string{"-tags=verif"},
		Env:        append(os.Environ(), "GOFLAGS=-mod=mod", "GOPROXY=off", "GOSUMDB=off", "GOTOOLCHAIN=local"),
	}
	pkgs, err := packages.Load(cfg, "./internal/...")
	if err != nil {
		return nil, err
	}
	var errs []string
	for _, p := range pkgs {
		for _, e := range p.Errors {
			errs = append(errs, e.Error())
		}
	}
	if len(errs) > 0 {
		return nil, fmt.Errorf("package errors: %s", strings.Join(errs, "; "))
	}
	prog, spkgs := ssautil.AllPackages(pkgs, ssa.InstantiateGenerics|ssa.GlobalDebug)
	prog.Build()
	p := &Program{root: root, pkgs: pkgs, ssa: prog, spkgs: map[string]*ssa.Package{}, tpkgs: map[string]*types.Package{},
		contracts: map[string]*Contract{}, funcs: map[string]*ssa.Function{}, files: map[string][]byte{},
		inlined: map[string]bool{}, usedGround: map[string]bool{}, known: map[string][]KnownFinding{}, usedContracts: map[string]bool{}, libCalls: map[string]bool{}, ufDecls: map[string]string{}, specLibNames: map[string]bool{}}
	if len(pkgs) > 0 {
		p.fset = pkgs[0].Fset
	}
	for i, sp := range spkgs {
		if sp == nil {
			continue
		}
		short := shortPkg(pkgs[i].PkgPath)
		p.spkgs[short] = sp
		p.tpkgs[short] = sp.Pkg
	}
	for fn := range ssautil.AllFunctions(prog) {
		if inRepo(fn) {
			p.funcs[fullKey(fn)] = fn
		}
	}
	p.regexPatterns = map[string]string{}
	for _, fn := range p.funcs {
		if fn.Name() != "init" {
			continue
		}
		for _, b := range fn.Blocks {
			for _, in := range b.Instrs {
				st, ok := in.(*ssa.Store)
				if !ok {
					continue
				}
				g, ok := st.Addr.(*ssa.Global)
				if !ok {
					continue
				}
				call, ok := st.Val.(*ssa.Call)
				if !ok {
					continue
				}
				if cal := call.Call.StaticCallee(); cal == nil || cal.String() != "regexp.MustCompile" || len(call.Call.Args) != 1 {
					continue
				}
				if k, ok := call.Call.Args[0].(*ssa.Const); ok && k.Value != nil {
					p.regexPatterns["g:"+globalKey(g)] = constant.StringVal(k.Value)
				}
			}
		}
	}
	p.cs = loadContracts(root)
	for g := range p.regexPatterns {
		p.cs.Frozen[strings.TrimPrefix(g, "g:")] = true
	}
	for k, c := range p.cs.Contracts {
		p.contracts[k] = c
		if !c.IsLemma {
			// "func X as name": a second contract on the same body (another property's view of
			// it); call sites only ever see the un-aliased contract of X
			if i := strings.Index(k, " as "); i >= 0 {
				k = k[:i]
			}
			fn := p.funcs[k]
			c.Fn = fn
		}
	}
	return p, nil
}

func (p *Program) pkgByName(name string) *types.Package {
	if t, ok := p.tpkgs[name]; ok {
		return t
	}
	// well-known aliases
	for k, t := range p.tpkgs {
		if strings.HasSuffix(k, "/"+name) {
			return t
		}
	}
	return nil
}

func (p *Program) contractOf(fn *ssa.Function) *Contract {
	if fn == nil {
		return nil
	}
	return p.contracts[fullKey(fn)]
}

func (p *Program) globalOf(v *types.Var) *ssa.Global {
	if v.Pkg() == nil {
		return nil
	}
	sp := p.ssa.Package(v.Pkg())
	if sp == nil {
		return nil
	}
	g, _ := sp.Members[v.Name()].(*ssa.Global)
	return g
}

func (p *Program) sourceText(pos, end token.Pos) string {
	if !pos.IsValid() {
		return ""
	}
	ps := p.fset.Position(pos)
	p.mu.Lock()
	data, ok := p.files[ps.Filename]
	if !ok {
		data, _ = os.ReadFile(ps.Filename)
		p.files[ps.Filename] = data
	}
	p.mu.Unlock()
	if ps.Offset >= len(data) {
		return ""
	}
	// the rest of the line from the position, trimmed; bracketed expression if it starts one
	lineEnd := ps.Offset
	for lineEnd < len(data) && data[lineEnd] != '\n' {
		lineEnd++
	}
	// walk back to the start of the indexed expression (identifier chars, dots, brackets)
	start := ps.Offset
	for start > 0 {
		ch := data[start-1]
		if ch == '_' || ch == '.' || ch >= 'a' && ch <= 'z' || ch >= 'A' && ch <= 'Z' || ch >= '0' && ch <= '9' || ch == ']' || ch == '[' {
			start--
		} else {
			break
		}
	}
	txt := string(data[start:lineEnd])
	// cut at the matching close bracket when the position is an opening bracket
	if ps.Offset < len(data) && (data[ps.Offset] == '[' || data[ps.Offset] == '(') {
		j := matchClose(txt, ps.Offset-start)
		if j > 0 {
			txt = txt[:j+1]
		}
	}
	txt = strings.TrimSpace(txt)
	if len(txt) > 60 {
		txt = txt[:60]
	}
	return strings.Join(strings.Fields(txt), "")
}

func (p *Program) declareUF(c *Ctx, name string, argSorts []string, res *Sort) {
	if p.specLibNames[name] {
		return
	}
	decl := fmt.Sprintf("(declare-fun %s (%s) %s)", name, strings.Join(argSorts, " "), res)
	p.mu.Lock()
	defer p.mu.Unlock()
	if old, ok := p.ufDecls[name]; ok {
		if old != decl {
			panic(unsupported{fmt.Sprintf("uninterpreted function %s used with two signatures: %s / %s", name, old, decl)})
		}
	} else {
		p.ufDecls[name] = decl
	}
	for _, l := range c.preamble {
		if l == decl {
			return
		}
	}
	c.preamble = append(c.preamble, decl)
}

// GroundData: package-level tables dumped from the initialised packages (see ground.go)
type GroundData struct {
	Vals map[string]interface{}
}
