package main

// SMT term layer: sorts, terms (as named definitions), the verification context that
// collects definitions, assumptions and obligations in passive (single-assignment) form.

import (
	"fmt"
	"math/big"
	"regexp"
	"sort"
	"strings"
)

type SortKind int

const (
	SBool SortKind = iota
	SBV
	SArray
	SRef
	SStr
	SIface
	SFloat
	SOpaque
)

type Sort struct {
	K    SortKind
	W    int   // bit width for SBV
	Idx  *Sort // SArray
	Elem *Sort // SArray
}

var (
	sortBool   = &Sort{K: SBool}
	sortRef    = &Sort{K: SRef}
	sortStr    = &Sort{K: SStr}
	sortIface  = &Sort{K: SIface}
	sortFloat  = &Sort{K: SFloat}
	sortOpaque = &Sort{K: SOpaque}
	bvSorts    = map[int]*Sort{}
)

func bvSort(w int) *Sort {
	if s, ok := bvSorts[w]; ok {
		return s
	}
	s := &Sort{K: SBV, W: w}
	bvSorts[w] = s
	return s
}

func arraySort(idx, elem *Sort) *Sort { return &Sort{K: SArray, Idx: idx, Elem: elem} }

func (s *Sort) String() string {
	switch s.K {
	case SBool:
		return "Bool"
	case SBV:
		return fmt.Sprintf("(_ BitVec %d)", s.W)
	case SArray:
		return fmt.Sprintf("(Array %s %s)", s.Idx, s.Elem)
	case SRef:
		return "Ref"
	case SStr:
		return "Str"
	case SIface:
		return "Iface"
	case SFloat:
		return "(_ FloatingPoint 11 53)"
	case SOpaque:
		return "Opq"
	}
	return "?"
}

func (s *Sort) Eq(o *Sort) bool { return s.String() == o.String() }

// Term is SMT text plus its sort.  Text is either a literal, a defined name or a small
// composite expression.
type Term struct {
	S    string
	Sort *Sort
}

func (t Term) String() string { return t.S }
func (t Term) IsNil() bool    { return t.Sort == nil }

var (
	tTrue  = Term{"true", sortBool}
	tFalse = Term{"false", sortBool}
	tNil   = Term{"nil_ref", sortRef}
)

func bvLit(w int, v *big.Int) Term {
	m := new(big.Int).Lsh(big.NewInt(1), uint(w))
	x := new(big.Int).Mod(v, m)
	if x.Sign() < 0 {
		x.Add(x, m)
	}
	if w%4 == 0 {
		return Term{fmt.Sprintf("#x%0*s", w/4, x.Text(16)), bvSort(w)}
	}
	return Term{fmt.Sprintf("(_ bv%s %d)", x.String(), w), bvSort(w)}
}

func bvLitI(w int, v int64) Term { return bvLit(w, big.NewInt(v)) }

// constant value of a literal term, if it is one
func litValue(t Term) (*big.Int, bool) {
	if t.Sort == nil || t.Sort.K != SBV {
		return nil, false
	}
	if strings.HasPrefix(t.S, "#x") {
		v, ok := new(big.Int).SetString(t.S[2:], 16)
		return v, ok
	}
	if strings.HasPrefix(t.S, "(_ bv") {
		f := strings.Fields(t.S[5:])
		v, ok := new(big.Int).SetString(f[0], 10)
		return v, ok
	}
	return nil, false
}

func signedValue(v *big.Int, w int) *big.Int {
	h := new(big.Int).Lsh(big.NewInt(1), uint(w-1))
	if v.Cmp(h) >= 0 {
		return new(big.Int).Sub(v, new(big.Int).Lsh(big.NewInt(1), uint(w)))
	}
	return v
}

// ---------------------------------------------------------------------------------------------

type Def struct {
	Name string
	Sort *Sort
	Body string // "" => declare-fun (free constant)
	deps []string
}

type Assume struct {
	Seq  int
	T    Term
	Note string
}

type Oblig struct {
	Name  string // full obligation name
	Kind  string
	Fn    string
	Seq   int  // assumptions with Seq < this are in scope
	Goal  Term // closed formula to be proved (guards included)
	Pos   string
	Props []string
	Extra []Term // additional hypotheses specific to this obligation (e.g. split value)
	// result
	Status   string // unsat / sat / unknown / timeout / trivial
	Solver   string
	Secs     float64
	Model    string
	Output   string
	Expect   string // "" normal; "sat" for vacuity covers
	SMTBytes int
	KnownInside *KnownFinding // this instance is the obligation restricted to a known finding's carve-out
}

type Ctx struct {
	defs     []*Def
	defIdx   map[string]*Def
	memo     map[string]Term // body+sort -> name (hash-consing)
	assumes  []Assume
	obligs   []*Oblig
	seq      int
	n        int
	strLits  map[string]Term
	strOrder []string
	initial  map[string]Term // initial heap / global cells
	preamble []string        // spec library text (define-funs)
	dry      bool
	quiet    int // >0 while evaluating spec expressions: no obligations, no assumptions
	counters map[string]int
}

func newCtx() *Ctx {
	return &Ctx{defIdx: map[string]*Def{}, memo: map[string]Term{}, strLits: map[string]Term{}, initial: map[string]Term{}, counters: map[string]int{}}
}

var nameRe = regexp.MustCompile(`\bk[0-9]+_[A-Za-z0-9_.]*|\bv[0-9]+\b|\b[hgs]_[A-Za-z0-9_.$]+`)

func (c *Ctx) nextSeq() int { c.seq++; return c.seq }

// def introduces a named definition (hash-consed)
func (c *Ctx) def(s *Sort, body string) Term {
	if isAtom(body) {
		return Term{body, s}
	}
	key := s.String() + "|" + body
	if t, ok := c.memo[key]; ok {
		return t
	}
	c.n++
	name := fmt.Sprintf("v%d", c.n)
	d := &Def{Name: name, Sort: s, Body: body}
	c.defs = append(c.defs, d)
	c.defIdx[name] = d
	t := Term{name, s}
	c.memo[key] = t
	return t
}

func isAtom(b string) bool {
	if b == "" {
		return false
	}
	if b[0] == '(' {
		return strings.HasPrefix(b, "(_ bv")
	}
	return true
}

// fresh declares a new free constant
func (c *Ctx) fresh(s *Sort, hint string) Term {
	c.n++
	name := fmt.Sprintf("k%d_%s", c.n, sanitize(hint))
	d := &Def{Name: name, Sort: s}
	c.defs = append(c.defs, d)
	c.defIdx[name] = d
	return Term{name, s}
}

func (c *Ctx) named(s *Sort, name string) Term {
	if _, ok := c.defIdx[name]; !ok {
		d := &Def{Name: name, Sort: s}
		c.defs = append(c.defs, d)
		c.defIdx[name] = d
	}
	return Term{name, s}
}

func sanitize(s string) string {
	var b strings.Builder
	for _, r := range s {
		if r >= 'a' && r <= 'z' || r >= 'A' && r <= 'Z' || r >= '0' && r <= '9' || r == '_' || r == '.' {
			b.WriteRune(r)
		} else {
			b.WriteByte('_')
		}
	}
	return b.String()
}

func (c *Ctx) assume(t Term, note string) {
	if c.dry || c.quiet > 0 || t.S == "true" {
		return
	}
	c.assumes = append(c.assumes, Assume{Seq: c.nextSeq(), T: t, Note: note})
}

func (c *Ctx) oblige(o *Oblig) {
	if c.dry || c.quiet > 0 {
		return
	}
	o.Seq = c.nextSeq()
	c.obligs = append(c.obligs, o)
}

func (c *Ctx) strLit(s string) Term {
	if t, ok := c.strLits[s]; ok {
		return t
	}
	t := c.named(sortStr, fmt.Sprintf("s_lit%d", len(c.strLits)))
	c.strLits[s] = t
	c.strOrder = append(c.strOrder, s)
	return t
}

// ---------------------------------------------------------------------------------------------
// term constructors with light simplification

func (c *Ctx) app(s *Sort, op string, args ...Term) Term {
	parts := make([]string, 0, len(args)+1)
	parts = append(parts, op)
	for _, a := range args {
		parts = append(parts, a.S)
	}
	return c.def(s, "("+strings.Join(parts, " ")+")")
}

func (c *Ctx) not(a Term) Term {
	switch a.S {
	case "true":
		return tFalse
	case "false":
		return tTrue
	}
	return c.app(sortBool, "not", a)
}

func (c *Ctx) and(as ...Term) Term {
	var out []Term
	for _, a := range as {
		if a.S == "false" {
			return tFalse
		}
		if a.S == "true" {
			continue
		}
		out = append(out, a)
	}
	if len(out) == 0 {
		return tTrue
	}
	if len(out) == 1 {
		return out[0]
	}
	return c.app(sortBool, "and", out...)
}

func (c *Ctx) or(as ...Term) Term {
	var out []Term
	for _, a := range as {
		if a.S == "true" {
			return tTrue
		}
		if a.S == "false" {
			continue
		}
		out = append(out, a)
	}
	if len(out) == 0 {
		return tFalse
	}
	if len(out) == 1 {
		return out[0]
	}
	return c.app(sortBool, "or", out...)
}

func (c *Ctx) implies(a, b Term) Term {
	if a.S == "true" {
		return b
	}
	if a.S == "false" || b.S == "true" {
		return tTrue
	}
	return c.app(sortBool, "=>", a, b)
}

func (c *Ctx) ite(cond, a, b Term) Term {
	if cond.S == "true" {
		return a
	}
	if cond.S == "false" {
		return b
	}
	if a.S == b.S {
		return a
	}
	return c.app(a.Sort, "ite", cond, a, b)
}

func (c *Ctx) eq(a, b Term) Term {
	if a.S == b.S {
		return tTrue
	}
	if va, ok := litValue(a); ok {
		if vb, ok2 := litValue(b); ok2 {
			if va.Cmp(vb) == 0 {
				return tTrue
			}
			return tFalse
		}
	}
	if a.Sort.K == SFloat {
		return c.app(sortBool, "fp.eq", a, b)
	}
	return c.app(sortBool, "=", a, b)
}

func (c *Ctx) sel(a, i Term) Term {
	if a.Sort.K != SArray {
		panic("select on non-array " + a.S + " : " + a.Sort.String())
	}
	return c.app(a.Sort.Elem, "select", a, i)
}

func (c *Ctx) store(a, i, v Term) Term {
	return c.app(a.Sort, "store", a, i, v)
}

func (c *Ctx) constArray(s *Sort, v Term) Term {
	return c.def(s, fmt.Sprintf("((as const %s) %s)", s, v.S))
}

func (c *Ctx) zero(s *Sort) Term {
	switch s.K {
	case SBool:
		return tFalse
	case SBV:
		return bvLitI(s.W, 0)
	case SArray:
		return c.constArray(s, c.zero(s.Elem))
	case SRef:
		return tNil
	case SStr:
		return c.strLit("")
	case SIface:
		return Term{"nil_iface", sortIface}
	case SFloat:
		return Term{"(_ +zero 11 53)", sortFloat}
	case SOpaque:
		return Term{"nil_opq", sortOpaque}
	}
	panic("zero")
}

// ---------------------------------------------------------------------------------------------
// emission

// emit writes the SMT-LIB text for one obligation, restricted to the cone of influence.
func (c *Ctx) emit(o *Oblig, logic string) string {
	var roots []string
	roots = append(roots, o.Goal.S)
	var hyps []Term
	for _, a := range c.assumes {
		if a.Seq < o.Seq {
			hyps = append(hyps, a.T)
			roots = append(roots, a.T.S)
		}
	}
	for _, e := range o.Extra {
		hyps = append(hyps, e)
		roots = append(roots, e.S)
	}
	need := map[string]bool{}
	var visit func(text string)
	visit = func(text string) {
		for _, nm := range nameRe.FindAllString(text, -1) {
			d, ok := c.defIdx[nm]
			if !ok || need[nm] {
				continue
			}
			need[nm] = true
			if d.Body != "" {
				visit(d.Body)
			}
		}
	}
	preambleText := strings.Join(c.preamble, "\n")
	for _, r := range roots {
		visit(r)
	}
	var b strings.Builder
	b.WriteString("(set-option :produce-models true)\n")
	if logic != "" {
		b.WriteString("(set-logic " + logic + ")\n")
	}
	b.WriteString("(declare-sort Ref 0)\n(declare-sort Str 0)\n(declare-sort Iface 0)\n(declare-sort Opq 0)\n")
	b.WriteString("(declare-fun nil_ref () Ref)\n(declare-fun nil_iface () Iface)\n(declare-fun nil_opq () Opq)\n")
	b.WriteString("(declare-fun strlen (Str) (_ BitVec 64))\n(declare-fun strat (Str (_ BitVec 64)) (_ BitVec 8))\n")
	b.WriteString("(declare-fun strcat (Str Str) Str)\n")
	if preambleText != "" {
		b.WriteString(preambleText)
		b.WriteString("\n")
	}
	for _, d := range c.defs {
		if !need[d.Name] {
			continue
		}
		if d.Body == "" {
			fmt.Fprintf(&b, "(declare-fun %s () %s)\n", d.Name, d.Sort)
		} else {
			fmt.Fprintf(&b, "(define-fun %s () %s %s)\n", d.Name, d.Sort, d.Body)
		}
	}
	// string literals: pairwise distinct, known length
	var lits []string
	for _, s := range c.strOrder {
		t := c.strLits[s]
		if need[t.S] {
			lits = append(lits, t.S)
			fmt.Fprintf(&b, "(assert (= (strlen %s) %s))\n", t.S, bvLitI(64, int64(len(s))).S)
			for i := 0; i < len(s) && i < 8; i++ {
				fmt.Fprintf(&b, "(assert (= (strat %s %s) %s))\n", t.S, bvLitI(64, int64(i)).S, bvLitI(8, int64(s[i])).S)
			}
		}
	}
	if len(lits) > 1 {
		sort.Strings(lits)
		fmt.Fprintf(&b, "(assert (distinct %s))\n", strings.Join(lits, " "))
	}
	for _, h := range hyps {
		fmt.Fprintf(&b, "(assert %s)\n", h.S)
	}
	fmt.Fprintf(&b, "(assert (not %s))\n", o.Goal.S)
	b.WriteString("(check-sat)\n(get-model)\n")
	return b.String()
}
