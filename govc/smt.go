package main

// SMT term layer: sorts, terms (as named definitions), the verification context that
// collects definitions, assumptions and obligations in passive (single-assignment) form.

import (
	"fmt"
	"strconv"
	"math/big"
	"regexp"
	"sort"
	"strings"
)

type SortKind int

const (
	SBool SortKind = iota
	SBV
	SArray
	SRef
	SStr
	SIface
	SFloat
	SOpaque
)

type Sort struct {
	K    SortKind
	W    int   // bit width for SBV
	Idx  *Sort // SArray
	Elem *Sort // SArray
}

var (
	sortBool   = &Sort{K: SBool}
	sortRef    = &Sort{K: SRef}
	sortStr    = &Sort{K: SStr}
	sortIface  = &Sort{K: SIface}
	sortFloat  = &Sort{K: SFloat}
	sortOpaque = &Sort{K: SOpaque}
)

var bvSortTab = func() [513]*Sort {
	var t [513]*Sort
	for w := 1; w <= 512; w++ {
		t[w] = &Sort{K: SBV, W: w}
	}
	return t
}()

func bvSort(w int) *Sort { return bvSortTab[w] }

func arraySort(idx, elem *Sort) *Sort { return &Sort{K: SArray, Idx: idx, Elem: elem} }

func (s *Sort) String() string {
	switch s.K {
	case SBool:
		return "Bool"
	case SBV:
		return fmt.Sprintf("(_ BitVec %d)", s.W)
	case SArray:
		return fmt.Sprintf("(Array %s %s)", s.Idx, s.Elem)
	case SRef:
		return "Ref"
	case SStr:
		return "Str"
	case SIface:
		return "Iface"
	case SFloat:
		return "(_ FloatingPoint 11 53)"
	case SOpaque:
		return "Opq"
	}
	return "?"
}

func (s *Sort) Eq(o *Sort) bool { return s.String() == o.String() }

// Term is SMT text plus its sort.  Text is either a literal, a defined name or a small
// composite expression.
type Term struct {
	S    string
	Sort *Sort
}

func (t Term) String() string { return t.S }
func (t Term) IsNil() bool    { return t.Sort == nil }

var (
	tTrue  = Term{"true", sortBool}
	tFalse = Term{"false", sortBool}
	tNil   = Term{"nil_ref", sortRef}
)

func bvLit(w int, v *big.Int) Term {
	if v.IsInt64() {
		return bvLitI(w, v.Int64())
	}
	return bvLitBig(w, v)
}

func bvLitBig(w int, v *big.Int) Term {
	m := new(big.Int).Lsh(big.NewInt(1), uint(w))
	x := new(big.Int).Mod(v, m)
	if x.Sign() < 0 {
		x.Add(x, m)
	}
	if w%4 == 0 {
		return Term{fmt.Sprintf("#x%0*s", w/4, x.Text(16)), bvSort(w)}
	}
	return Term{fmt.Sprintf("(_ bv%s %d)", x.String(), w), bvSort(w)}
}

func bvLitI(w int, v int64) Term {
	if w <= 64 && w%4 == 0 {
		u := uint64(v)
		if w < 64 {
			u &= (uint64(1) << uint(w)) - 1
		}
		const hex = "0123456789abcdef"
		n := w / 4
		buf := make([]byte, 2+n)
		buf[0], buf[1] = '#', 'x'
		for i := n - 1; i >= 0; i-- {
			buf[2+i] = hex[u&15]
			u >>= 4
		}
		return Term{string(buf), bvSort(w)}
	}
	return bvLitBig(w, big.NewInt(v))
}

// constant value of a literal term, if it is one
func litValue(t Term) (*big.Int, bool) {
	if t.Sort == nil || t.Sort.K != SBV {
		return nil, false
	}
	if strings.HasPrefix(t.S, "#x") {
		v, ok := new(big.Int).SetString(t.S[2:], 16)
		return v, ok
	}
	if strings.HasPrefix(t.S, "(_ bv") {
		f := strings.Fields(t.S[5:])
		v, ok := new(big.Int).SetString(f[0], 10)
		return v, ok
	}
	return nil, false
}

func signedValue(v *big.Int, w int) *big.Int {
	h := new(big.Int).Lsh(big.NewInt(1), uint(w-1))
	if v.Cmp(h) >= 0 {
		return new(big.Int).Sub(v, new(big.Int).Lsh(big.NewInt(1), uint(w)))
	}
	return v
}

// ---------------------------------------------------------------------------------------------

type Def struct {
	Name string
	Sort *Sort
	Body string // "" => declare-fun (free constant)
	deps []string
}

type Assume struct {
	Seq  int
	T    Term
	Note string
}

type Oblig struct {
	Name  string // full obligation name
	Label string // clause label (explicit obligations) or source text (implicit ones)
	Kind  string
	Fn    string
	Seq   int  // assumptions with Seq < this are in scope
	Goal  Term // closed formula to be proved (guards included)
	Pos   string
	Props []string
	Extra []Term // additional hypotheses specific to this obligation (e.g. split value)
	// result
	Status   string // unsat / sat / unknown / timeout / trivial
	Solver   string
	Secs     float64
	Model    string
	Output   string
	Expect   string // "" normal; "sat" for vacuity covers
	Rel      []string // non-interference: names of the poison constants; Goal is an equality  t == t  whose
	//                   right-hand side is to be read in a second copy of the query with fresh poison
	RelTerms []Term   // the terms that must not depend on the poison
	SMTBytes int
	SMTFile  string
	Retried  bool
	KnownInside *KnownFinding // this instance is the obligation restricted to a known finding's carve-out
}

type Ctx struct {
	defs     []*Def
	defIdx   map[string]*Def
	memo     map[string]Term // body+sort -> name (hash-consing)
	assumes  []Assume
	obligs   []*Oblig
	seq      int
	n        int
	strLits  map[string]Term
	strOrder []string
	initial  map[string]Term // initial heap / global cells
	preamble []string        // spec library text (define-funs)
	dry      bool
	quiet    int // >0 while evaluating spec expressions: no obligations, no assumptions
	revealed map[string]bool
	revealedApp map[string]Term
	appArgs     map[string][]Term // opaque-application constant -> its argument terms
	appOrder    []string
	symOfConst  map[string]string
	storeInfo map[string]accessInfo
	selInfo   map[string]accessInfo
	iteInfo   map[string]iteInfoT
	iteBV     map[string]iteInfoT
	constInfo map[string]Term
	axioms   []Axiom
	tables   map[string]*Table
	groundFn func(key string) (interface{}, bool)
	ufGlobals func(key string) bool
	funDecls map[string]string
	counters map[string]int
	pureFactsDone map[string]bool
	substTerm map[string]Term // defined name -> literal (case split by term substitution)
}

func newCtx() *Ctx {
	return &Ctx{defIdx: map[string]*Def{}, memo: map[string]Term{}, strLits: map[string]Term{}, initial: map[string]Term{}, counters: map[string]int{}, tables: map[string]*Table{}, revealed: map[string]bool{}, revealedApp: map[string]Term{}, appArgs: map[string][]Term{}, symOfConst: map[string]string{},
		storeInfo: map[string]accessInfo{}, selInfo: map[string]accessInfo{}, iteInfo: map[string]iteInfoT{}, iteBV: map[string]iteInfoT{}, constInfo: map[string]Term{}}
}

var nameRe = regexp.MustCompile(`\bk[0-9]+_[A-Za-z0-9_.]*|\bv[0-9]+\b|\b[hgs]_[A-Za-z0-9_.$]+`)

func (c *Ctx) nextSeq() int { c.seq++; return c.seq }

// scanNames extracts the identifiers of a term text that may be defined names (v<n>, k<n>_..,
// h_.., g_.., s_..) and spec function symbols, without regular expressions
func scanNames(text string) []string {
	var out []string
	i := 0
	n := len(text)
	for i < n {
		ch := text[i]
		if ch == '(' || ch == ')' || ch == ' ' {
			i++
			continue
		}
		j := i
		for j < n && text[j] != '(' && text[j] != ')' && text[j] != ' ' {
			j++
		}
		tok := text[i:j]
		i = j
		if len(tok) < 2 {
			continue
		}
		switch tok[0] {
		case 'v', 'k':
			if tok[1] >= '0' && tok[1] <= '9' {
				out = append(out, tok)
			}
		case 'h', 'g', 's':
			if tok[1] == '_' || strings.HasPrefix(tok, "spec_") {
				out = append(out, tok)
			}
		}
	}
	return out
}

// def introduces a named definition (hash-consed)
func (c *Ctx) def(s *Sort, body string) Term {
	if isAtom(body) {
		return Term{body, s}
	}
	key := s.String() + "|" + body
	if t, ok := c.memo[key]; ok {
		if lit, ok := c.substTerm[t.S]; ok {
			return lit
		}
		return t
	}
	c.n++
	name := "v" + strconv.Itoa(c.n)
	d := &Def{Name: name, Sort: s, Body: body, deps: scanNames(body)}
	c.defs = append(c.defs, d)
	c.defIdx[name] = d
	t := Term{name, s}
	c.memo[key] = t
	return t
}

func isAtom(b string) bool {
	if b == "" {
		return false
	}
	if b[0] == '(' {
		return strings.HasPrefix(b, "(_ bv")
	}
	return true
}

// fresh declares a new free constant
func (c *Ctx) fresh(s *Sort, hint string) Term {
	c.n++
	name := fmt.Sprintf("k%d_%s", c.n, sanitize(hint))
	d := &Def{Name: name, Sort: s}
	c.defs = append(c.defs, d)
	c.defIdx[name] = d
	return Term{name, s}
}

func (c *Ctx) named(s *Sort, name string) Term {
	if _, ok := c.defIdx[name]; !ok {
		d := &Def{Name: name, Sort: s}
		c.defs = append(c.defs, d)
		c.defIdx[name] = d
	}
	return Term{name, s}
}

func sanitize(s string) string {
	var b strings.Builder
	for _, r := range s {
		if r >= 'a' && r <= 'z' || r >= 'A' && r <= 'Z' || r >= '0' && r <= '9' || r == '_' || r == '.' {
			b.WriteRune(r)
		} else {
			b.WriteByte('_')
		}
	}
	return b.String()
}

func (c *Ctx) assume(t Term, note string) {
	if c.dry || c.quiet > 0 || t.S == "true" {
		return
	}
	c.assumes = append(c.assumes, Assume{Seq: c.nextSeq(), T: t, Note: note})
}

// axiom: a definitional fact (instance of a spec function definition); always in scope
func (c *Ctx) axiom(app, sym string, t Term) {
	if t.S == "true" {
		return
	}
	c.axioms = append(c.axioms, Axiom{App: app, Sym: sym, T: t})
}

type Axiom struct {
	App string // name of the application term this axiom defines
	Sym string // function symbol (spec_<name>)
	T   Term
	PerApp bool // relevant only when this very application occurs in the goal's cone
}

var specSymRe = regexp.MustCompile(`\bspec_[A-Za-z0-9_]+`)

// conjuncts splits a goal that is a top-level conjunction
func (c *Ctx) conjuncts(t Term) []Term {
	d, ok := c.defIdx[t.S]
	if !ok || !strings.HasPrefix(d.Body, "(and ") {
		return []Term{t}
	}
	var out []Term
	for _, f := range strings.Fields(d.Body[5 : len(d.Body)-1]) {
		sub := Term{f, sortBool}
		if _, isDef := c.defIdx[f]; !isDef && f != "true" && f != "false" {
			return []Term{t}
		}
		out = append(out, c.conjuncts(sub)...)
	}
	return out
}

func (c *Ctx) oblige(o *Oblig) {
	if c.dry || c.quiet > 0 {
		return
	}
	o.Seq = c.nextSeq()
	c.obligs = append(c.obligs, o)
}

func (c *Ctx) declareFun(name string, argSorts []string, res *Sort) {
	if c.funDecls == nil {
		c.funDecls = map[string]string{}
	}
	if _, ok := c.funDecls[name]; ok {
		return
	}
	decl := fmt.Sprintf("(declare-fun %s (%s) %s)", name, strings.Join(argSorts, " "), res)
	c.funDecls[name] = decl
	c.preamble = append(c.preamble, decl)
}

func (c *Ctx) strLit(s string) Term {
	if t, ok := c.strLits[s]; ok {
		return t
	}
	t := c.named(sortStr, fmt.Sprintf("s_lit%d", len(c.strLits)))
	c.strLits[s] = t
	c.strOrder = append(c.strOrder, s)
	return t
}

// ---------------------------------------------------------------------------------------------
// term constructors with light simplification

func (c *Ctx) app(s *Sort, op string, args ...Term) Term {
	parts := make([]string, 0, len(args)+1)
	parts = append(parts, op)
	for _, a := range args {
		parts = append(parts, a.S)
	}
	return c.def(s, "("+strings.Join(parts, " ")+")")
}

func (c *Ctx) not(a Term) Term {
	switch a.S {
	case "true":
		return tFalse
	case "false":
		return tTrue
	}
	return c.app(sortBool, "not", a)
}

func (c *Ctx) and(as ...Term) Term {
	var out []Term
	for _, a := range as {
		if a.S == "false" {
			return tFalse
		}
		if a.S == "true" {
			continue
		}
		out = append(out, a)
	}
	if len(out) == 0 {
		return tTrue
	}
	if len(out) == 1 {
		return out[0]
	}
	return c.app(sortBool, "and", out...)
}

func (c *Ctx) or(as ...Term) Term {
	var out []Term
	for _, a := range as {
		if a.S == "true" {
			return tTrue
		}
		if a.S == "false" {
			continue
		}
		out = append(out, a)
	}
	if len(out) == 0 {
		return tFalse
	}
	if len(out) == 1 {
		return out[0]
	}
	return c.app(sortBool, "or", out...)
}

func (c *Ctx) implies(a, b Term) Term {
	if a.S == "true" {
		return b
	}
	if a.S == "false" || b.S == "true" {
		return tTrue
	}
	return c.app(sortBool, "=>", a, b)
}

func (c *Ctx) ite(cond, a, b Term) Term {
	if cond.S == "true" {
		return a
	}
	if cond.S == "false" {
		return b
	}
	if a.S == b.S {
		return a
	}
	t := c.app(a.Sort, "ite", cond, a, b)
	if a.Sort.K == SArray {
		c.iteInfo[t.S] = iteInfoT{cond, a, b}
	} else if a.Sort.K == SBV {
		c.iteBV[t.S] = iteInfoT{cond, a, b}
	}
	return t
}

func (c *Ctx) eq(a, b Term) Term {
	if a.S == b.S {
		return tTrue
	}
	if va, ok := litValue(a); ok {
		if vb, ok2 := litValue(b); ok2 {
			if va.Cmp(vb) == 0 {
				return tTrue
			}
			return tFalse
		}
	}
	if a.Sort.K == SFloat {
		return c.app(sortBool, "fp.eq", a, b)
	}
	return c.app(sortBool, "=", a, b)
}

func (c *Ctx) sel(a, i Term) Term {
	if a.Sort.K != SArray {
		panic("select on non-array " + a.S + " : " + a.Sort.String())
	}
	if t, ok := c.selTable(a, i); ok {
		return t
	}
	if d, ok := c.defIdx[a.S]; ok && d.Body != "" {
		switch {
		case strings.HasPrefix(d.Body, "(store "):
			// select over store with literal indices folds syntactically
			if info, ok := c.storeInfo[a.S]; ok {
				if iv, ok1 := litValue(i); ok1 {
					if jv, ok2 := litValue(info.idx); ok2 {
						if iv.Cmp(jv) == 0 {
							return info.val
						}
						return c.sel(info.base, i)
					}
				}
				if info.idx.S == i.S {
					return info.val
				}
				// literal query index over a store at a symbolic index: case split into an ite
				if _, lit := litValue(i); lit {
					return c.ite(c.eq(info.idx, i), info.val, c.sel(info.base, i))
				}
			}
		case strings.HasPrefix(d.Body, "(ite "):
			if info, ok := c.iteInfo[a.S]; ok {
				return c.ite(info.cond, c.sel(info.a, i), c.sel(info.b, i))
			}
		case strings.HasPrefix(d.Body, "((as const "):
			if v, ok := c.constInfo[a.S]; ok {
				return v
			}
		case strings.HasPrefix(d.Body, "(select "):
			// column of a constant 2-D table: T[x][lit]  ==>  Tcol_lit[x]
			if info, ok := c.selInfo[a.S]; ok {
				if tb, isT := c.tables[info.base.S]; isT {
					if iv, lit := litValue(i); lit && iv.IsInt64() {
						if col, ok := c.columnTable(info.base, tb, int(iv.Int64())); ok {
							return c.sel(col, info.idx)
						}
					}
				}
			}
		}
	}
	t := c.app(a.Sort.Elem, "select", a, i)
	if a.Sort.Elem.K == SArray {
		c.selInfo[t.S] = accessInfo{base: a, idx: i}
	}
	return t
}

type accessInfo struct {
	base, idx, val Term
}

type iteInfoT struct{ cond, a, b Term }

func (c *Ctx) store(a, i, v Term) Term {
	// store over store at the same literal index: drop the inner one
	if info, ok := c.storeInfo[a.S]; ok {
		if iv, ok1 := litValue(i); ok1 {
			if jv, ok2 := litValue(info.idx); ok2 && iv.Cmp(jv) == 0 {
				a = info.base
			}
		}
	}
	t := c.app(a.Sort, "store", a, i, v)
	c.storeInfo[t.S] = accessInfo{base: a, idx: i, val: v}
	return t
}

func (c *Ctx) constArray(s *Sort, v Term) Term {
	t := c.def(s, fmt.Sprintf("((as const %s) %s)", s, v.S))
	c.constInfo[t.S] = v
	return t
}

func (c *Ctx) zero(s *Sort) Term {
	switch s.K {
	case SBool:
		return tFalse
	case SBV:
		return bvLitI(s.W, 0)
	case SArray:
		return c.constArray(s, c.zero(s.Elem))
	case SRef:
		return tNil
	case SStr:
		return c.strLit("")
	case SIface:
		return Term{"nil_iface", sortIface}
	case SFloat:
		return Term{"(_ +zero 11 53)", sortFloat}
	case SOpaque:
		return Term{"nil_opq", sortOpaque}
	}
	panic("zero")
}

// ---------------------------------------------------------------------------------------------
// emission

// emit writes the SMT-LIB text for one obligation, restricted to the cone of influence.
func (c *Ctx) emit(o *Oblig, logic string) string {
	t, _ := c.emitMany([]*Oblig{o}, false)
	return t
}

// emitBoth renders the relevance-filtered query and, when the filter dropped a definition,
// the complete one as well (used as the fallback before anything is reported)
func (c *Ctx) emitBoth(o *Oblig) (filtered string, full string) {
	t, dropped := c.emitMany([]*Oblig{o}, false)
	if !dropped {
		return t, ""
	}
	f, _ := c.emitMany([]*Oblig{o}, true)
	return t, f
}

// emitMany writes one query that proves all the given obligations (each under exactly the
// assumptions that are in scope for it).
func (c *Ctx) emitMany(os []*Oblig, allAxioms bool) (string, bool) {
	minSeq := os[0].Seq
	for _, o := range os {
		if o.Seq < minSeq {
			minSeq = o.Seq
		}
	}
	var roots []string
	var hyps []Term
	for _, a := range c.assumes {
		if a.Seq < minSeq {
			hyps = append(hyps, a.T)
			roots = append(roots, a.T.S)
		}
	}
	// per-goal formulas
	var goals []string
	for _, o := range os {
		var local []string
		for _, a := range c.assumes {
			if a.Seq >= minSeq && a.Seq < o.Seq {
				local = append(local, a.T.S)
				roots = append(roots, a.T.S)
			}
		}
		for _, e := range o.Extra {
			local = append(local, e.S)
			roots = append(roots, e.S)
		}
		roots = append(roots, o.Goal.S)
		for _, t := range o.RelTerms {
			roots = append(roots, t.S)
		}
		if len(os) == 1 {
			// single obligation: keep the classic shape (hypotheses as separate assertions)
			for _, l := range local {
				hyps = append(hyps, Term{l, sortBool})
			}
			goals = append(goals, o.Goal.S)
		} else if len(local) == 0 {
			goals = append(goals, o.Goal.S)
		} else {
			goals = append(goals, fmt.Sprintf("(=> (and %s true) %s)", strings.Join(local, " "), o.Goal.S))
		}
	}
	need := map[string]bool{}
	var visitNames func(names []string)
	visitNames = func(names []string) {
		for _, nm := range names {
			if need[nm] {
				continue
			}
			d, ok := c.defIdx[nm]
			if !ok {
				continue
			}
			need[nm] = true
			if d.Body != "" {
				if d.deps == nil {
					d.deps = scanNames(d.Body)
				}
				visitNames(d.deps)
			}
		}
	}
	visit := func(text string) { visitNames(scanNames(text)) }
	preambleText := strings.Join(c.preamble, "\n")
	for _, r := range roots {
		visit(r)
	}
	// definitional axioms: an axiom (instance of the definition of an opaque spec function) is
	// included only when its function symbol occurs in the goals' own cone (or in the body of
	// an axiom already included).  Dropping axioms is always sound; it keeps queries small.
	goalSyms := map[string]bool{}
	seenG := map[string]bool{}
	var visitGN func(names []string)
	visitGN = func(names []string) {
		for _, nm := range names {
			if strings.HasPrefix(nm, "spec_") {
				goalSyms[nm] = true
				continue
			}
			if sym, ok := c.symOfConst[nm]; ok {
				goalSyms[sym] = true
			}
			if seenG[nm] {
				continue
			}
			d, ok := c.defIdx[nm]
			if !ok {
				continue
			}
			seenG[nm] = true
			if d.Body != "" {
				if d.deps == nil {
					d.deps = scanNames(d.Body)
				}
				visitGN(d.deps)
			}
		}
	}
	visitG := func(text string) { visitGN(scanNames(text)) }
	for _, o := range os {
		visitG(o.Goal.S)
		for _, e := range o.Extra {
			visitG(e.S)
		}
	}
	// also relevant: definitions of applications one of whose arguments occurs in the goal's cone,
	// unless that argument is shared by the applications of many different symbols (e.g. the board)
	if !allAxioms {
		argSyms := map[string]map[string]bool{}
		for _, a := range c.axioms {
			for _, arg := range c.appArgs[a.App] {
				if argSyms[arg.S] == nil {
					argSyms[arg.S] = map[string]bool{}
				}
				argSyms[arg.S][a.Sym] = true
			}
		}
		for _, a := range c.axioms {
			if goalSyms[a.Sym] || !need[a.App] {
				continue
			}
			for _, arg := range c.appArgs[a.App] {
				if seenG[arg.S] && len(argSyms[arg.S]) <= 4 {
					goalSyms[a.Sym] = true
				}
			}
		}
	}
	usedAx := make([]bool, len(c.axioms))
	for changed := true; changed; {
		changed = false
		for i, a := range c.axioms {
			if !usedAx[i] && need[a.App] && (allAxioms || (goalSyms[a.Sym] && (!a.PerApp || seenG[a.App]))) {
				usedAx[i] = true
				changed = true
				hyps = append(hyps, a.T)
				visit(a.T.S)
				visitG(a.T.S)
			}
		}
	}
	// congruence between opaque applications of the same function (they are constants keyed by
	// the syntax of their arguments): equal arguments give equal values.  Only for applications
	// that occur in this query, and only for symbols with few applications.
	var congr []string
	bySym := map[string][]string{}
	for _, nm := range c.appOrder {
		if need[nm] {
			bySym[c.symOfConst[nm]] = append(bySym[c.symOfConst[nm]], nm)
		}
	}
	for _, apps := range bySym {
		if len(apps) < 2 || len(apps) > 24 {
			continue
		}
		for i := 0; i < len(apps); i++ {
			for j := i + 1; j < len(apps); j++ {
				a1, a2 := c.appArgs[apps[i]], c.appArgs[apps[j]]
				if len(a1) != len(a2) {
					continue
				}
				var eqs []string
				for k := range a1 {
					if a1[k].S != a2[k].S {
						eqs = append(eqs, fmt.Sprintf("(= %s %s)", a1[k].S, a2[k].S))
						visit(a1[k].S)
						visit(a2[k].S)
					}
				}
				if len(eqs) == 0 {
					continue
				}
				congr = append(congr, fmt.Sprintf("(=> (and %s true) (= %s %s))", strings.Join(eqs, " "), apps[i], apps[j]))
			}
		}
	}
	var b strings.Builder
	b.WriteString("(set-option :produce-models true)\n")
	b.WriteString("(declare-sort Ref 0)\n(declare-sort Str 0)\n(declare-sort Iface 0)\n(declare-sort Opq 0)\n")
	b.WriteString("(declare-fun nil_ref () Ref)\n(declare-fun nil_iface () Iface)\n(declare-fun nil_opq () Opq)\n")
	b.WriteString("(declare-fun strlen (Str) (_ BitVec 64))\n(declare-fun strat (Str (_ BitVec 64)) (_ BitVec 8))\n")
	b.WriteString("(declare-fun strcat (Str Str) Str)\n(declare-fun str_of_rune ((_ BitVec 32)) Str)\n")
	if preambleText != "" {
		b.WriteString(preambleText)
		b.WriteString("\n")
	}
	for _, d := range c.defs {
		if !need[d.Name] {
			continue
		}
		if d.Body == "" {
			fmt.Fprintf(&b, "(declare-fun %s () %s)\n", d.Name, d.Sort)
		} else {
			fmt.Fprintf(&b, "(define-fun %s () %s %s)\n", d.Name, d.Sort, d.Body)
		}
	}
	// string literals: pairwise distinct, known length
	var lits []string
	for _, s := range c.strOrder {
		t := c.strLits[s]
		if need[t.S] {
			lits = append(lits, t.S)
			fmt.Fprintf(&b, "(assert (= (strlen %s) %s))\n", t.S, bvLitI(64, int64(len(s))).S)
			for i := 0; i < len(s) && i < 64; i++ {
				fmt.Fprintf(&b, "(assert (= (strat %s %s) %s))\n", t.S, bvLitI(64, int64(i)).S, bvLitI(8, int64(s[i])).S)
			}
		}
	}
	if len(lits) > 1 {
		sort.Strings(lits)
		fmt.Fprintf(&b, "(assert (distinct %s))\n", strings.Join(lits, " "))
	}
	for _, nm := range c.appOrder {
		if need[nm] {
			var as []string
			for _, a := range c.appArgs[nm] {
				as = append(as, a.S)
			}
			fmt.Fprintf(&b, "; app %s = %s(%s)\n", nm, c.symOfConst[nm], strings.Join(as, ", "))
		}
	}
	for _, cg := range congr {
		fmt.Fprintf(&b, "(assert %s)\n", cg)
	}
	seenH := map[string]bool{}
	for _, h := range hyps {
		if seenH[h.S] {
			continue
		}
		seenH[h.S] = true
		fmt.Fprintf(&b, "(assert %s)\n", h.S)
	}
	if len(os) == 1 && len(os[0].Rel) > 0 {
		// second copy of every definition that depends on a poison constant
		o := os[0]
		dep := map[string]bool{}
		for _, p := range o.Rel {
			dep[p] = true
		}
		prime := func(text string) string {
			var sb strings.Builder
			i, n := 0, len(text)
			for i < n {
				ch := text[i]
				if ch == '(' || ch == ')' || ch == ' ' {
					sb.WriteByte(ch)
					i++
					continue
				}
				j := i
				for j < n && text[j] != '(' && text[j] != ')' && text[j] != ' ' {
					j++
				}
				tok := text[i:j]
				if dep[tok] {
					sb.WriteString(tok + "_2")
				} else {
					sb.WriteString(tok)
				}
				i = j
			}
			return sb.String()
		}
		for _, d := range c.defs {
			if !need[d.Name] {
				continue
			}
			if dep[d.Name] && d.Body == "" {
				fmt.Fprintf(&b, "(declare-fun %s_2 () %s)\n", d.Name, d.Sort)
				continue
			}
			if d.Body == "" {
				continue
			}
			if d.deps == nil {
				d.deps = scanNames(d.Body)
			}
			for _, x := range d.deps {
				if dep[x] {
					dep[d.Name] = true
					break
				}
			}
			if dep[d.Name] {
				fmt.Fprintf(&b, "(define-fun %s_2 () %s %s)\n", d.Name, d.Sort, prime(d.Body))
			}
		}
		for h := range seenH {
			if p := prime(h); p != h {
				fmt.Fprintf(&b, "(assert %s)\n", p)
			}
		}
		var eqs []string
		for _, t := range o.RelTerms {
			if p := prime(t.S); p != t.S {
				eqs = append(eqs, fmt.Sprintf("(= %s %s)", t.S, p))
			}
		}
		g := goals[0]
		if pg := prime(g); pg != g {
			// both copies reach this point
			fmt.Fprintf(&b, "(assert %s)\n(assert %s)\n", g, pg)
		} else {
			fmt.Fprintf(&b, "(assert %s)\n", g)
		}
		fmt.Fprintf(&b, "(assert (not (and %s true)))\n", strings.Join(eqs, " "))
	} else if len(goals) == 1 {
		fmt.Fprintf(&b, "(assert (not %s))\n", goals[0])
	} else {
		fmt.Fprintf(&b, "(assert (not (and %s)))\n", strings.Join(goals, " "))
	}
	b.WriteString("(check-sat)\n(get-model)\n")
	dropped := false
	for i, a := range c.axioms {
		if !usedAx[i] && need[a.App] {
			dropped = true
		}
	}
	return b.String(), dropped
}

// mapLitIte applies f to the literal leaves of an if-then-else tree of bit-vector literals;
// ok=false when some leaf is not a literal
func (c *Ctx) mapLitIte(t Term, f func(*big.Int) Term, depth int) (Term, bool) {
	if v, ok := litValue(t); ok {
		return f(v), true
	}
	if depth > 24 {
		return Term{}, false
	}
	info, ok := c.iteBV[t.S]
	if !ok {
		return Term{}, false
	}
	a, ok1 := c.mapLitIte(info.a, f, depth+1)
	if !ok1 {
		return Term{}, false
	}
	b, ok2 := c.mapLitIte(info.b, f, depth+1)
	if !ok2 {
		return Term{}, false
	}
	return c.ite(info.cond, a, b), true
}
