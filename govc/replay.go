package main

// Replay of counterexamples on the real code (go test -overlay with an injected in-package test).

type ReplayResult struct {
	Attempted bool   `json:"attempted"`
	Confirmed bool   `json:"confirmed"`
	Driver    string `json:"driver,omitempty"`
	Input     string `json:"input,omitempty"`
	Output    string `json:"output,omitempty"`
	Note      string `json:"note,omitempty"`
}

func (p *Program) replay(verif, prop string, v *Violation, ob *Oblig) *ReplayResult {
	return &ReplayResult{Attempted: false, Note: "no replay driver for this obligation family"}
}
