package main

// Replay of counterexamples on the real code: the solver's model of a failed `ensures`
// obligation gives values for the parameters of the unit; an in-package Go test, injected with
// `go test -overlay` (nothing is written into the repository), calls the real function with
// these values and evaluates the violated clause - translated from the contract language to Go -
// on what the real code returns.  The replay confirms the violation when the precondition holds
// and the clause is false (or the call panics) on the real code.
//
// Reach of the driver (everything else is reported as "not attempted" and the VIOLATION line
// keeps its suffix no-failing-input-found): units whose parameters are scalars (integers,
// booleans, named integer types; a receiver or parameter `*T` with scalar T is passed as the
// address of a local), clauses built from Go expressions over parameters, `result`, `old(..)`,
// `ite`, `==>`, `<==>`, `forall(v, lo, hi, ..)` with constant bounds, `testbit`, calls of
// functions/methods of the package and of non-recursive spec functions.

import (
	"encoding/json"
	"fmt"
	"go/ast"
	"go/printer"
	"go/token"
	"go/types"
	"os"
	"os/exec"
	"path/filepath"
	"regexp"
	"sort"
	"strconv"
	"strings"
	"time"
)

type ReplayResult struct {
	Attempted bool   `json:"attempted"`
	Confirmed bool   `json:"confirmed"`
	Driver    string `json:"driver,omitempty"`
	Input     string `json:"input,omitempty"`
	Output    string `json:"output,omitempty"`
	Note      string `json:"note,omitempty"`
	PkgDir    string `json:"package_dir,omitempty"`
	Test      string `json:"test_source,omitempty"`
}

const modulePath = "github.com/frankkopp/FrankyGo"

type goTrans struct {
	p       *Program
	ct      *Contract
	ptrs    map[string]bool // parameters that are pointers to scalars
	specs   map[string]bool // spec functions needed
	inOld   bool
	imports map[string]bool
	bound   map[string]bool
}

func exprStr(e ast.Expr) string {
	var b strings.Builder
	printer.Fprint(&b, token.NewFileSet(), e)
	return b.String()
}

func (g *goTrans) tr(e ast.Expr) (string, error) {
	switch x := e.(type) {
	case *ast.Ident:
		switch x.Name {
		case "result", "result0":
			return "r0", nil
		case "result1":
			return "r1", nil
		}
		return x.Name, nil
	case *ast.BasicLit:
		return x.Value, nil
	case *ast.ParenExpr:
		s, err := g.tr(x.X)
		return "(" + s + ")", err
	case *ast.UnaryExpr:
		s, err := g.tr(x.X)
		return x.Op.String() + "(" + s + ")", err
	case *ast.StarExpr:
		if id, ok := x.X.(*ast.Ident); ok && g.ptrs[id.Name] {
			if g.inOld {
				return "old_" + id.Name, nil
			}
			return "(*" + id.Name + ")", nil
		}
		return "", fmt.Errorf("dereference %s", exprStr(e))
	case *ast.BinaryExpr:
		a, err := g.tr(x.X)
		if err != nil {
			return "", err
		}
		b, err := g.tr(x.Y)
		if err != nil {
			return "", err
		}
		return "(" + a + " " + x.Op.String() + " " + b + ")", nil
	case *ast.SelectorExpr:
		if id, ok := x.X.(*ast.Ident); ok {
			if _, isParam := g.bound[id.Name]; !isParam {
				// package qualifier?
				if tp := g.p.tpkgs[id.Name]; tp != nil {
					g.imports[tp.Path()] = true
					return id.Name + "." + x.Sel.Name, nil
				}
				if id.Name == "time" || id.Name == "math" {
					g.imports[id.Name] = true
					return id.Name + "." + x.Sel.Name, nil
				}
			}
		}
		s, err := g.tr(x.X)
		return s + "." + x.Sel.Name, err
	case *ast.IndexExpr:
		a, err := g.tr(x.X)
		if err != nil {
			return "", err
		}
		b, err := g.tr(x.Index)
		return a + "[" + b + "]", err
	case *ast.CallExpr:
		var args []string
		name := ""
		if id, ok := x.Fun.(*ast.Ident); ok {
			name = id.Name
		}
		switch name {
		case "old":
			if len(x.Args) != 1 {
				return "", fmt.Errorf("old")
			}
			was := g.inOld
			g.inOld = true
			s, err := g.tr(x.Args[0])
			g.inOld = was
			return "(" + s + ")", err
		case "forall", "exists":
			if len(x.Args) != 4 {
				return "", fmt.Errorf("quantifier shape")
			}
			v, ok := x.Args[0].(*ast.Ident)
			if !ok {
				return "", fmt.Errorf("quantifier variable")
			}
			lo, err := g.tr(x.Args[1])
			if err != nil {
				return "", err
			}
			hi, err := g.tr(x.Args[2])
			if err != nil {
				return "", err
			}
			g.bound[v.Name] = true
			body, err := g.tr(x.Args[3])
			delete(g.bound, v.Name)
			if err != nil {
				return "", err
			}
			fn := "govcForall"
			if name == "exists" {
				fn = "govcExists"
			}
			return fmt.Sprintf("%s(int(%s), int(%s), func(%s int) bool { return %s })", fn, lo, hi, v.Name, body), nil
		}
		for _, a := range x.Args {
			s, err := g.tr(a)
			if err != nil {
				return "", err
			}
			args = append(args, s)
		}
		switch name {
		case "implies":
			return "(!(" + args[0] + ") || (" + args[1] + "))", nil
		case "iff":
			return "((" + args[0] + ") == (" + args[1] + "))", nil
		case "ite":
			return "govcIte(" + strings.Join(args, ", ") + ")", nil
		case "testbit":
			return "govcTestbit(uint64(" + args[0] + "), int(" + args[1] + "))", nil
		case "uninterp", "store", "elems", "sliceoff", "lockheld", "fresh", "orfold", "xorfold", "sum":
			return "", fmt.Errorf("spec builtin %s has no executable reading", name)
		}
		if name != "" {
			if sf := g.p.cs.Specs[name]; sf != nil {
				if sf.Recursive {
					return "", fmt.Errorf("recursive spec function %s", name)
				}
				g.specs[name] = true
				return "spec_" + name + "(" + strings.Join(args, ", ") + ")", nil
			}
		}
		f, err := g.tr(x.Fun)
		if err != nil {
			return "", err
		}
		return f + "(" + strings.Join(args, ", ") + ")", nil
	}
	return "", fmt.Errorf("expression form %T", e)
}

// specFuncs renders the needed spec functions (transitively) as Go functions
func (g *goTrans) specFuncs() (string, error) {
	var out strings.Builder
	done := map[string]bool{}
	for {
		var todo []string
		for n := range g.specs {
			if !done[n] {
				todo = append(todo, n)
			}
		}
		if len(todo) == 0 {
			break
		}
		sort.Strings(todo)
		for _, n := range todo {
			done[n] = true
			sf := g.p.cs.Specs[n]
			var ps []string
			savedBound := g.bound
			g.bound = map[string]bool{}
			for _, prm := range sf.Params {
				if strings.ContainsAny(prm.Typ, "[]*") {
					return "", fmt.Errorf("spec function %s has a non-scalar parameter", n)
				}
				ps = append(ps, prm.Name+" "+prm.Typ)
				g.bound[prm.Name] = true
			}
			savedPtrs := g.ptrs
			g.ptrs = map[string]bool{}
			body, err := g.tr(sf.Body.E)
			g.ptrs = savedPtrs
			g.bound = savedBound
			if err != nil {
				return "", fmt.Errorf("spec function %s: %v", n, err)
			}
			res := sf.Result
			fmt.Fprintf(&out, "func spec_%s(%s) %s { return %s(%s) }\n", n, strings.Join(ps, ", "), res, res, body)
		}
	}
	return out.String(), nil
}

var modelDefRe = regexp.MustCompile(`\(define-fun\s+k\d+_p_(\w+)\s+\(\)\s+(\(_ BitVec \d+\)|Bool)\s+(#[bx][0-9a-fA-F]+|true|false)\s*\)`)

func parseModelParams(out string) map[string]string {
	m := map[string]string{}
	for _, mm := range modelDefRe.FindAllStringSubmatch(out, -1) {
		m[mm[1]] = mm[3]
	}
	return m
}

func modelLiteral(v string) (uint64, bool, bool) { // value, isBool, boolValue
	switch v {
	case "true":
		return 1, true, true
	case "false":
		return 0, true, false
	}
	if strings.HasPrefix(v, "#b") {
		u, _ := strconv.ParseUint(v[2:], 2, 64)
		return u, false, false
	}
	if strings.HasPrefix(v, "#x") {
		u, _ := strconv.ParseUint(v[2:], 16, 64)
		return u, false, false
	}
	return 0, false, false
}

func scalarType(t types.Type) bool {
	b, ok := t.Underlying().(*types.Basic)
	return ok && b.Info()&(types.IsInteger|types.IsBoolean) != 0
}

func (p *Program) replay(verif, prop string, v *Violation, ob *Oblig) *ReplayResult {
	na := func(format string, a ...interface{}) *ReplayResult {
		return &ReplayResult{Attempted: false, Note: fmt.Sprintf(format, a...)}
	}
	if ob != nil && ob.Kind == "exhaustive" && ob.Status == "sat" {
		// decided by execution on the real initialised tables: the failing case is a concrete input
		rel := ""
		if ct := p.contracts[ob.Fn]; ct != nil {
			if sp := p.spkgs[ct.Pkg]; sp != nil {
				rel = strings.TrimPrefix(sp.Pkg.Path(), modulePath+"/")
			}
		}
		return &ReplayResult{Attempted: true, Confirmed: true, Driver: "go test -overlay (exhaustive evaluation of the clause on the initialised tables)",
			Input: ob.Output, Output: ob.Output, PkgDir: rel, Test: ob.Model, Note: "the real tables violate the clause on this element of the enumerated domain"}
	}
	if ob == nil || ob.Kind != "ensures" {
		return na("no replay driver for this obligation family (only `ensures` clauses of scalar units are replayed)")
	}
	if ob.Status != "sat" {
		return na("the solver gave no model (%s)", ob.Status)
	}
	ct := p.contracts[ob.Fn]
	if ct == nil {
		return na("unit %s not found", ob.Fn)
	}
	model := parseModelParams(ob.Output)
	g := &goTrans{p: p, ct: ct, ptrs: map[string]bool{}, specs: map[string]bool{}, imports: map[string]bool{}, bound: map[string]bool{}}
	type prm struct {
		name, typ string
		ptr, isBool bool
	}
	var prms []prm
	pkgPath := ""
	var qual types.Qualifier
	if ct.IsLemma {
		sp := p.spkgs[ct.Pkg]
		if sp == nil {
			return na("package %s not found", ct.Pkg)
		}
		pkgPath = sp.Pkg.Path()
		for _, q := range ct.Params {
			if strings.ContainsAny(q.Typ, "[]*") {
				return na("lemma parameter %s %s is not a scalar", q.Name, q.Typ)
			}
			prms = append(prms, prm{name: q.Name, typ: q.Typ, isBool: q.Typ == "bool"})
		}
	} else {
		if ct.Fn == nil {
			return na("no function body")
		}
		pkgPath = ct.Fn.Pkg.Pkg.Path()
		qual = func(other *types.Package) string {
			if other.Path() == pkgPath {
				return ""
			}
			g.imports[other.Path()] = true
			return other.Name()
		}
		for _, q := range ct.Fn.Params {
			t := q.Type()
			if pt, ok := t.Underlying().(*types.Pointer); ok && scalarType(pt.Elem()) {
				prms = append(prms, prm{name: q.Name(), typ: types.TypeString(pt.Elem(), qual), ptr: true, isBool: false})
				g.ptrs[q.Name()] = true
				continue
			}
			if !scalarType(t) {
				return na("parameter %s of type %s is not a scalar: the model's heap is not translated back into Go values", q.Name(), t)
			}
			b := t.Underlying().(*types.Basic)
			prms = append(prms, prm{name: q.Name(), typ: types.TypeString(t, qual), isBool: b.Info()&types.IsBoolean != 0})
		}
	}
	for _, q := range prms {
		g.bound[q.name] = true
	}
	// the violated clause(s)
	var clauses []SpecExpr
	for _, en := range ct.Ensures {
		if en.Label == ob.Label {
			clauses = append(clauses, en)
		}
	}
	if len(clauses) == 0 {
		clauses = ct.Ensures
	}
	var body strings.Builder
	var inputs []string
	for _, q := range prms {
		val, okm := model[q.name]
		if q.ptr {
			val, okm = model[q.name+"__deref"]
		}
		if !okm {
			val = "#x0"
			if q.isBool {
				val = "false"
			}
		}
		u, isB, bv := modelLiteral(val)
		name := q.name
		if q.ptr {
			name = "old_" + q.name
		}
		if q.isBool || isB {
			fmt.Fprintf(&body, "\tvar %s %s = %v\n", name, q.typ, bv)
			inputs = append(inputs, fmt.Sprintf("%s=%v", q.name, bv))
		} else {
			fmt.Fprintf(&body, "\tvar raw_%s uint64 = %#x\n\tvar %s = %s(raw_%s)\n", q.name, u, name, q.typ, q.name)
			inputs = append(inputs, fmt.Sprintf("%s=%#x", q.name, u))
		}
		if q.ptr {
			fmt.Fprintf(&body, "\tcell_%s := old_%s\n\t%s := &cell_%s\n", q.name, q.name, q.name, q.name)
		}
		fmt.Fprintf(&body, "\t_ = %s\n", name)
	}
	// requires
	for _, r := range ct.Requires {
		s, err := g.tr(r.E)
		if err != nil {
			return na("precondition %q cannot be evaluated in Go: %v", r.Src, err)
		}
		fmt.Fprintf(&body, "\tif !(%s) {\n\t\tfmt.Println(\"GOVC-REPLAY precondition-false: %s\")\n\t\treturn\n\t}\n", s, strings.ReplaceAll(r.Src, `"`, `'`))
	}
	// the call
	if !ct.IsLemma {
		var args []string
		recv := ""
		sig := ct.Fn.Signature
		for i, q := range ct.Fn.Params {
			if i == 0 && sig.Recv() != nil {
				recv = q.Name()
				continue
			}
			args = append(args, q.Name())
		}
		call := ct.Fn.Name() + "(" + strings.Join(args, ", ") + ")"
		if recv != "" {
			call = recv + "." + call
		}
		switch sig.Results().Len() {
		case 0:
			fmt.Fprintf(&body, "\t%s\n", call)
		case 1:
			fmt.Fprintf(&body, "\tr0 := %s\n\t_ = r0\n\tfmt.Printf(\"GOVC-REPLAY result=%%v\\n\", r0)\n", call)
		case 2:
			fmt.Fprintf(&body, "\tr0, r1 := %s\n\t_, _ = r0, r1\n\tfmt.Printf(\"GOVC-REPLAY result=%%v,%%v\\n\", r0, r1)\n", call)
		default:
			return na("more than two results")
		}
	}
	for _, cl := range clauses {
		s, err := g.tr(cl.E)
		if err != nil {
			return na("clause %q cannot be evaluated in Go: %v", cl.Src, err)
		}
		fmt.Fprintf(&body, "\tfmt.Printf(\"GOVC-REPLAY clause=%s holds=%%v\\n\", %s)\n", cl.Label, s)
	}
	specs, err := g.specFuncs()
	if err != nil {
		return na("%v", err)
	}
	// the package's own dot-import of types
	pkgName := pkgPath[strings.LastIndex(pkgPath, "/")+1:]
	var imps []string
	imps = append(imps, `"fmt"`, `"testing"`)
	if pkgPath != modulePath+"/internal/types" {
		imps = append(imps, `. "`+modulePath+`/internal/types"`)
	}
	var ips []string
	for ip := range g.imports {
		ips = append(ips, ip)
	}
	sort.Strings(ips)
	for _, ip := range ips {
		if ip != pkgPath && ip != modulePath+"/internal/types" {
			imps = append(imps, `"`+ip+`"`)
		}
	}
	src := "//go:build go1.18\n\n// (the build line lifts the language version of this file above the module's go 1.14: generics)\n\npackage " + pkgName + "\n\nimport (\n\t" + strings.Join(imps, "\n\t") + "\n)\n\n" +
		"var _ = MoveNone\n\n" +
		replayHelpers + specs +
		"\nfunc TestGovcReplay(t *testing.T) {\n\tdefer func() {\n\t\tif r := recover(); r != nil {\n\t\t\tfmt.Printf(\"GOVC-REPLAY panic=%v\\n\", r)\n\t\t}\n\t}()\n" + body.String() + "}\n"
	rel := strings.TrimPrefix(pkgPath, modulePath+"/")
	res := &ReplayResult{Attempted: true, Driver: "go test -overlay (in-package test calling the real function with the model's parameter values)",
		Input: strings.Join(inputs, " "), PkgDir: rel, Test: src}
	runReplay(p.root, res, ct.MayPanic)
	return res
}

// runReplay executes the stored test against the repository and classifies the outcome
func runReplay(repo string, res *ReplayResult, mayPanic bool) {
	dir, err := os.MkdirTemp("", "govc-replay")
	if err != nil {
		res.Note = err.Error()
		return
	}
	defer os.RemoveAll(dir)
	tf := filepath.Join(dir, "zz_govc_replay_test.go")
	os.WriteFile(tf, []byte(res.Test), 0o644)
	ov, _ := json.Marshal(map[string]map[string]string{"Replace": {filepath.Join(repo, res.PkgDir, "zz_govc_replay_test.go"): tf}})
	of := filepath.Join(dir, "overlay.json")
	os.WriteFile(of, ov, 0o644)
	cmd := exec.Command("go", "test", "-overlay", of, "-vet=off", "-count=1", "-timeout", "60s", "-v", "-run", "^TestGovc(Replay|Exhaustive)$", "./"+res.PkgDir+"/")
	cmd.Dir = repo
	cmd.Env = append(os.Environ(), "GOFLAGS=-mod=mod", "GOPROXY=off", "GOSUMDB=off", "GOTOOLCHAIN=local")
	done := make(chan struct{})
	var out []byte
	go func() { out, _ = cmd.CombinedOutput(); close(done) }()
	select {
	case <-done:
	case <-time.After(180 * time.Second):
		if cmd.Process != nil {
			cmd.Process.Kill()
		}
		<-done
	}
	var keep []string
	for _, l := range strings.Split(string(out), "\n") {
		if strings.Contains(l, "GOVC-REPLAY") || strings.Contains(l, "GOVC-EXH") || strings.Contains(l, "zz_govc_replay_test.go") || strings.HasPrefix(l, "FAIL") || strings.HasPrefix(l, "ok") {
			keep = append(keep, l)
		}
	}
	res.Output = strings.Join(keep, "\n")
	switch {
	case strings.Contains(res.Output, "precondition-false"):
		res.Note = "the model's parameter values do not satisfy the precondition on the real code (the model relies on abstracted parts)"
	case strings.Contains(res.Output, "GOVC-EXH fail"):
		res.Confirmed = true
		res.Note = "the real tables violate the clause on an element of the enumerated domain"
	case strings.Contains(res.Output, "GOVC-EXH done"):
		res.Note = "the clause holds on the whole enumerated domain"
	case strings.Contains(res.Output, "holds=false"):
		res.Confirmed = true
		res.Note = "the real code violates the clause on this input"
	case strings.Contains(res.Output, "GOVC-REPLAY panic=") && !mayPanic:
		res.Confirmed = true
		res.Note = "the real code panics on this input"
	case strings.Contains(res.Output, "holds=true"):
		res.Note = "the real code satisfies the clause on the model's parameter values (the counterexample depends on state the driver does not translate)"
	default:
		res.Note = "replay test did not build or run"
		if len(out) > 1500 {
			out = out[:1500]
		}
		res.Output = string(out)
	}
}

// replayFile re-runs the test stored in a replay file (bin/govc replay <file>)
func replayFile(repo, path string) int {
	data, err := os.ReadFile(path)
	if err != nil {
		fmt.Fprintln(os.Stderr, err)
		return 2
	}
	var v Violation
	if err := json.Unmarshal(data, &v); err != nil {
		fmt.Fprintln(os.Stderr, err)
		return 2
	}
	fmt.Printf("obligation %s (%s, %s): %s\n", v.Obligation, v.Kind, v.Status, v.Reason)
	if v.Replay == nil || v.Replay.Test == "" {
		fmt.Println("no executable replay is stored for this obligation; solver output:")
		fmt.Println(v.Output)
		return 1
	}
	r := *v.Replay
	r.Confirmed = false
	runReplay(repo, &r, false)
	fmt.Printf("input: %s\n%s\n%s\n", r.Input, r.Output, r.Note)
	if r.Confirmed {
		return 1
	}
	return 0
}

const replayHelpers = "func govcIte[T any](c bool, a, b T) T {\n\tif c {\n\t\treturn a\n\t}\n\treturn b\n}\nfunc govcTestbit(b uint64, i int) bool { return i >= 0 && i < 64 && (b>>uint(i))&1 == 1 }\nfunc govcForall(lo, hi int, f func(int) bool) bool {\n\tfor i := lo; i < hi; i++ {\n\t\tif !f(i) {\n\t\t\treturn false\n\t\t}\n\t}\n\treturn true\n}\nfunc govcExists(lo, hi int, f func(int) bool) bool {\n\tfor i := lo; i < hi; i++ {\n\t\tif f(i) {\n\t\t\treturn true\n\t\t}\n\t}\n\treturn false\n}\nvar _ = govcIte[int]\nvar _, _, _ = govcTestbit, govcForall, govcExists\n\n"
