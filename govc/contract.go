package main

// Contract files: comment-only Go files (//go:build verif) named zz_contracts_verif*.go in
// the package they describe.  Syntax (one clause per //@ line, "//@ +" continues a clause):
//
//   //@ func (*Position).putPiece            header: function key as printed by funcKey
//   //@   property C02,C03
//   //@   requires [label:] <expr>
//   //@   ensures  [label:] <expr>
//   //@   assigns  p.board, p.zobristKey     |  assigns nothing
//   //@   invariant[k] <expr>   decreases[k] <expr>   unroll[k] n
//   //@   split x in lo..hi
//   //@   inline | trusted | pure | maypanic | abstract | safety | nilcheck | noframe
//   //@   ghost name Type = <expr>
//   //@   assert at <anchor>: <expr>
//   //@ spec name(a T, b U) R = <expr>      macro-expanded spec function
//   //@ lemma Name(p *Position, m Move)    harness; body lines:  //@   do p.DoMove(m)
//   //@ ground <global> ...                package-level tables taken from a dump of init

import (
	"fmt"
	"go/ast"
	"go/parser"
	"go/token"
	"os"
	"path/filepath"
	"regexp"
	"strconv"
	"strings"

	"golang.org/x/tools/go/ssa"
)

type SpecExpr struct {
	Label string
	Src   string
	E     ast.Expr
	Props []string
	Line  string // file:line of the clause
}

type LoopSpec struct {
	Invariants []SpecExpr
	Decreases  []SpecExpr
	Unroll     int
	Uses       []string // lemma instances at the loop header (after the invariant is assumed)
	Unfolds    []string // unfoldings of recursive spec functions at the loop header
	NoWrap     []SpecExpr // counters assumed not to wrap around (|e| < 2^62 at the loop header); reported as an assumption
}

type Split struct {
	Var    string
	Lo, Hi int
	Vals   []int // all values (union of the ranges)
	For    []string // clause labels the instances are restricted to (empty: everything)
}

// EnumSpec: `enumerate x in a..b` or `enumerate x subsetsof <expr>` in a lemma: the lemma is decided
// by exhaustive execution over this domain (and the domain is its precondition)
type EnumSpec struct {
	Var    string
	Lo, Hi int
	Expr   string // subsets: every sub-bitset of this expression's value
}

type SpecParam struct {
	Name string
	Typ  string
}

type SpecFunc struct {
	Recursive bool     // recursive definition: applications are opaque; `unfold` instantiates the equation
	Measure   SpecExpr // recursive: non-negative measure that decreases at every recursive application
	Opaque bool
	Name   string
	Params []SpecParam
	Result string
	Body   SpecExpr
	Pkg    string
}

// WritersSpec: only the listed functions (and package initialisation) may write the field or
// let its address escape:  //@ writers C13 Search.timeLimit: (*Search).run, (*Search).setupSearchLimits
type WritersSpec struct {
	Readers bool // `readers` clause: only the listed functions may load the field (everybody else has to go through them)
	Whole bool // only stores that replace the field as a whole count (stores into its components are covered by clauses of the component type)
	Pkg    string
	Props  []string
	Type   string
	Field  string
	Funcs  []string
	Line   string
}

type AssertAt struct {
	Anchor string
	E      SpecExpr
}

type GhostVar struct {
	Name string
	Typ  string
	Init SpecExpr
}

type GhostUpdate struct {
	Anchor string
	Var    string
	E      SpecExpr
}

type Contract struct {
	Key        string
	Pkg        string // short package path (e.g. "position")
	File       string
	Props      []string
	Requires   []SpecExpr
	Ensures    []SpecExpr
	Assigns    []string
	HasAssigns bool
	Loops      map[int]*LoopSpec
	Splits     []Split
	Inline     bool
	Trusted    bool
	Pure       bool
	MayPanic   bool
	Abstract   bool
	Safety     bool
	NilCheck   bool
	NoFrame    bool
	PureFacts  map[string]bool // ... whose postconditions are attached to the uninterpreted applications
	PureCalls  map[string]bool // callees treated as uninterpreted functions of their arguments in this unit
	Inlines    map[string]bool // callees executed by their bodies in this unit although they have a contract
	DivAbstract bool
	AssumeCalls bool // callee preconditions are assumed, not proved (control-flow accounting units)
	NoSafety   bool // no implicit index/nil/div obligations in this unit (they are assumed to hold)
	Scratch    []string // locations whose entry value must not influence the result (non-interference)
	NoSplit    bool // do not split conjunctive goals into one obligation per conjunct
	Asserts    []AssertAt
	Cuts       []AssertAt // like Asserts, and the unit's assigns targets are havocked afterwards (the formula is re-assumed)
	Ghosts     []GhostVar
	GhostUpd   []GhostUpdate
	Uses       []string
	UsesAtReturn []string // lemma instances at every return (may mention result)
	UnfoldsAtReturn []string
	Unfolds    []string // unfoldings of recursive spec functions over the entry state
	Inducts    []string // lemma: instances of the lemma itself assumed under a smaller measure
	Measure    *SpecExpr
	Reveal     []string
	Hide       []string // ground tables treated as uninterpreted in this unit (facts come from lemmas)
	PropFor    map[string][]string // property -> clause labels: the unit serves that property with these clauses only
	// lemma
	Enums   []EnumSpec // executed lemma: the finite domain it is checked over by running the real initialised tables
	IsLemma bool
	Params  []SpecParam
	Body    []SpecExpr // statements (call expressions or assignments)
	Fn      *ssa.Function
	Timeout int
}

type ContractSet struct {
	Contracts map[string]*Contract // by pkg + "." + key
	Specs     map[string]*SpecFunc // by name (global namespace; pkg recorded)
	Grounds   map[string]bool      // "pkg.global"
	Frozen    map[string]bool      // "pkg.global": never written outside package initialisation
	Writers   []WritersSpec        // field write whitelists
	FrozenProps map[string][]string // explicitly frozen globals -> properties that own the check
	Order     []string
	Errors    []string
}

var clauseRe = regexp.MustCompile(`^(\w+)(?:\[(\d+)\])?\s*(.*)$`)
var labelRe = regexp.MustCompile(`^([A-Za-z][A-Za-z0-9_\-]*):\s+(.*)$`)

func loadContracts(root string) *ContractSet {
	cs := &ContractSet{Contracts: map[string]*Contract{}, Specs: map[string]*SpecFunc{}, Grounds: map[string]bool{}, Frozen: map[string]bool{}}
	files, _ := filepath.Glob(filepath.Join(root, "internal", "*", "zz_contracts_verif*.go"))
	for _, f := range files {
		cs.parseFile(f)
	}
	return cs
}

func (cs *ContractSet) errf(format string, a ...interface{}) {
	cs.Errors = append(cs.Errors, fmt.Sprintf(format, a...))
}

func (cs *ContractSet) parseFile(path string) {
	data, err := os.ReadFile(path)
	if err != nil {
		cs.errf("%v", err)
		return
	}
	pkg := filepath.Base(filepath.Dir(path))
	type rawLine struct {
		text string
		line int
	}
	var lines []rawLine
	for i, ln := range strings.Split(string(data), "\n") {
		t := strings.TrimSpace(ln)
		if !strings.HasPrefix(t, "//@") {
			continue
		}
		t = strings.TrimSpace(strings.TrimPrefix(t, "//@"))
		if t == "" {
			continue
		}
		if strings.HasPrefix(t, "+") && len(lines) > 0 {
			lines[len(lines)-1].text += " " + strings.TrimSpace(t[1:])
			continue
		}
		lines = append(lines, rawLine{t, i + 1})
	}
	var cur *Contract
	for _, rl := range lines {
		loc := fmt.Sprintf("%s:%d", shortFile(path), rl.line)
		m := clauseRe.FindStringSubmatch(rl.text)
		if m == nil {
			cs.errf("%s: cannot parse clause %q", loc, rl.text)
			continue
		}
		kw, ord, rest := m[1], m[2], strings.TrimSpace(m[3])
		k := 0
		if ord != "" {
			k, _ = strconv.Atoi(ord)
		}
		mk := func(src string) SpecExpr {
			label := ""
			if lm := labelRe.FindStringSubmatch(src); lm != nil {
				label, src = lm[1], lm[2]
			}
			e, err := parseSpecExpr(src)
			if err != nil {
				cs.errf("%s: %v in %q", loc, err, src)
			}
			return SpecExpr{Label: label, Src: src, E: e, Line: loc}
		}
		switch kw {
		case "func":
			cur = &Contract{Key: rest, Pkg: pkg, File: path, Loops: map[int]*LoopSpec{}}
			cs.add(cur, loc)
			continue
		case "lemma":
			name, params, _, _, err := parseSig(rest)
			if err != nil {
				cs.errf("%s: %v", loc, err)
				continue
			}
			cur = &Contract{Key: "lemma " + name, Pkg: pkg, File: path, Loops: map[int]*LoopSpec{}, IsLemma: true, Params: params}
			cs.add(cur, loc)
			continue
		case "spec":
			opaque, recursive := false, false
			if strings.HasPrefix(rest, "opaque ") {
				opaque = true
				rest = strings.TrimSpace(rest[7:])
			}
			if strings.HasPrefix(rest, "recursive ") {
				opaque, recursive = true, true
				rest = strings.TrimSpace(rest[10:])
			}
			name, params, res, body, err := parseSig(rest)
			if err != nil {
				cs.errf("%s: %v", loc, err)
				continue
			}
			if _, dup := cs.Specs[name]; dup {
				cs.errf("%s: duplicate spec %s", loc, name)
			}
			sf := &SpecFunc{Opaque: opaque, Recursive: recursive, Name: name, Params: params, Pkg: pkg}
			if recursive {
				// `R measure <expr>` : result type followed by the termination measure
				i := strings.Index(res, " measure ")
				if i < 0 {
					cs.errf("%s: recursive spec %s needs `measure <expr>` after its result type", loc, name)
				} else {
					sf.Measure = mk(strings.TrimSpace(res[i+9:]))
					res = strings.TrimSpace(res[:i])
				}
			}
			sf.Result = res
			sf.Body = mk(body)
			cs.Specs[name] = sf
			continue
		case "writers", "readers":
			wm := regexp.MustCompile(`^([\w,]+)\s+(\w+)\.(\w+)(\s+whole)?\s*:\s*(.*)$`).FindStringSubmatch(rest)
			if wm == nil {
				cs.errf("%s: bad writers clause %q (syntax: writers C13 Type.field: f1, f2)", loc, rest)
				continue
			}
			ws := WritersSpec{Pkg: pkg, Props: strings.Split(wm[1], ","), Type: wm[2], Field: wm[3], Whole: wm[4] != "", Readers: kw == "readers", Line: loc}
			for _, f := range strings.Split(wm[5], ",") {
				if f = strings.TrimSpace(f); f != "" {
					ws.Funcs = append(ws.Funcs, f)
				}
			}
			cs.Writers = append(cs.Writers, ws)
			continue
		case "ground", "frozen":
			var fprops []string
			if fm := regexp.MustCompile(`^(C\d+(?:,C\d+)*)\s+(.*)$`).FindStringSubmatch(rest); fm != nil && kw == "frozen" {
				// `frozen C18 a b c`: the frozen check of these globals is an obligation of the property
				fprops = strings.Split(fm[1], ",")
				rest = fm[2]
			}
			for _, g := range strings.Fields(strings.ReplaceAll(rest, ",", " ")) {
				if !strings.Contains(g, ".") {
					g = pkg + "." + g
				}
				if kw == "ground" {
					cs.Grounds[g] = true
				}
				cs.Frozen[g] = true
				if len(fprops) > 0 {
					if cs.FrozenProps == nil {
						cs.FrozenProps = map[string][]string{}
					}
					cs.FrozenProps[g] = fprops
				}
			}
			continue
		}
		if cur == nil {
			cs.errf("%s: clause %q outside a func/lemma block", loc, kw)
			continue
		}
		loop := func() *LoopSpec {
			if cur.Loops[k] == nil {
				cur.Loops[k] = &LoopSpec{}
			}
			return cur.Loops[k]
		}
		switch kw {
		case "property":
			// `property C10 for clock, hclock`: only the named clauses are obligations of C10
			if i := strings.Index(rest, " for "); i >= 0 {
				if cur.PropFor == nil {
					cur.PropFor = map[string][]string{}
				}
				pr := strings.TrimSpace(rest[:i])
				for _, l := range strings.Split(rest[i+5:], ",") {
					cur.PropFor[pr] = append(cur.PropFor[pr], strings.TrimSpace(l))
				}
				continue
			}
			for _, p := range strings.Split(rest, ",") {
				cur.Props = append(cur.Props, strings.TrimSpace(p))
			}
		case "requires":
			cur.Requires = append(cur.Requires, mk(rest))
		case "ensures":
			cur.Ensures = append(cur.Ensures, mk(rest))
		case "assigns":
			cur.HasAssigns = true
			if rest != "nothing" {
				for _, a := range splitTop(rest, ',') {
					cur.Assigns = append(cur.Assigns, strings.TrimSpace(a))
				}
			}
		case "invariant":
			loop().Invariants = append(loop().Invariants, mk(rest))
		case "decreases":
			loop().Decreases = append(loop().Decreases, mk(rest))
		case "enumerate":
			if cur == nil || !cur.IsLemma {
				cs.errf("%s: enumerate outside a lemma", loc)
				continue
			}
			if em := regexp.MustCompile(`^(\w+)\s+in\s+(-?\d+)\.\.(-?\d+)$`).FindStringSubmatch(rest); em != nil {
				lo, _ := strconv.Atoi(em[2])
				hi, _ := strconv.Atoi(em[3])
				cur.Enums = append(cur.Enums, EnumSpec{Var: em[1], Lo: lo, Hi: hi})
				cur.Requires = append(cur.Requires, mk(fmt.Sprintf("enum_%s: int(%s) >= %d && int(%s) <= %d", em[1], em[1], lo, em[1], hi)))
			} else if em := regexp.MustCompile(`^(\w+)\s+subsetsof\s+(.+)$`).FindStringSubmatch(rest); em != nil {
				cur.Enums = append(cur.Enums, EnumSpec{Var: em[1], Expr: em[2]})
				cur.Requires = append(cur.Requires, mk(fmt.Sprintf("enum_%s: %s &^ (%s) == 0", em[1], em[1], em[2])))
			} else {
				cs.errf("%s: bad enumerate %q (syntax: enumerate x in a..b | enumerate x subsetsof <expr>)", loc, rest)
			}
		case "nowrap":
			loop().NoWrap = append(loop().NoWrap, mk(rest))
		case "unroll":
			n, _ := strconv.Atoi(rest)
			loop().Unroll = n
		case "split":
			var forL []string
			if i := strings.Index(rest, " for "); i >= 0 {
				for _, l := range strings.Split(rest[i+5:], ",") {
					forL = append(forL, strings.TrimSpace(l))
				}
				rest = strings.TrimSpace(rest[:i])
			}
			sm := regexp.MustCompile(`^(.+?)\s+in\s+([-\d.,\s]+)$`).FindStringSubmatch(rest)
			if sm == nil {
				cs.errf("%s: bad split %q", loc, rest)
				continue
			}
			sp := Split{Var: strings.TrimSpace(sm[1]), For: forL}
			for _, rg := range strings.Split(sm[2], ",") {
				rg = strings.TrimSpace(rg)
				lo, hi := 0, 0
				if i := strings.Index(rg, ".."); i >= 0 {
					lo, _ = strconv.Atoi(rg[:i])
					hi, _ = strconv.Atoi(rg[i+2:])
				} else {
					lo, _ = strconv.Atoi(rg)
					hi = lo
				}
				for k := lo; k <= hi; k++ {
					sp.Vals = append(sp.Vals, k)
				}
			}
			cur.Splits = append(cur.Splits, sp)
		case "inline":
			cur.Inline = true
		case "trusted":
			cur.Trusted = true
		case "pure":
			cur.Pure = true
		case "maypanic":
			cur.MayPanic = true
		case "abstract":
			cur.Abstract = true
		case "safety":
			cur.Safety = true
		case "nilcheck":
			cur.NilCheck = true
		case "noframe":
			cur.NoFrame = true
		case "timeout":
			cur.Timeout, _ = strconv.Atoi(rest)
		case "ghost":
			gm := regexp.MustCompile(`^(\w+)\s+([\w.*\[\]]+)\s*=\s*(.*)$`).FindStringSubmatch(rest)
			if gm == nil {
				cs.errf("%s: bad ghost %q", loc, rest)
				continue
			}
			cur.Ghosts = append(cur.Ghosts, GhostVar{gm[1], gm[2], mk(gm[3])})
		case "assert":
			am := regexp.MustCompile(`^at\s+(.*?)\s*::\s*(.*)$`).FindStringSubmatch(rest)
			if am == nil {
				cs.errf("%s: bad assert %q (syntax: assert at <anchor> :: <expr>)", loc, rest)
				continue
			}
			cur.Asserts = append(cur.Asserts, AssertAt{am[1], mk(am[2])})
		case "cut":
			am := regexp.MustCompile(`^at\s+(.*?)\s*::\s*(.*)$`).FindStringSubmatch(rest)
			if am == nil {
				cs.errf("%s: bad cut %q (syntax: cut at <anchor> :: <expr>)", loc, rest)
				continue
			}
			cur.Cuts = append(cur.Cuts, AssertAt{am[1], mk(am[2])})
		case "update":
			um := regexp.MustCompile(`^at\s+(.*?)\s*::\s*(\w+)\s*=\s*(.*)$`).FindStringSubmatch(rest)
			if um == nil {
				cs.errf("%s: bad update %q (syntax: update at <anchor> :: g = <expr>)", loc, rest)
				continue
			}
			cur.GhostUpd = append(cur.GhostUpd, GhostUpdate{um[1], um[2], mk(um[3])})
		case "do":
			cur.Body = append(cur.Body, SpecExpr{Src: rest, Line: loc})
		case "nosplit":
			cur.NoSplit = true
		case "purecalls":
			if cur.PureCalls == nil {
				cur.PureCalls = map[string]bool{}
				cur.PureFacts = map[string]bool{}
			}
			for _, a := range strings.Split(rest, ",") {
				a = strings.TrimSpace(a)
				facts := false
				if strings.HasSuffix(a, " with facts") {
					facts = true
					a = strings.TrimSpace(strings.TrimSuffix(a, " with facts"))
				}
				if !strings.Contains(a, ".") || strings.HasPrefix(a, "(") {
					a = pkg + "." + a
				}
				cur.PureCalls[a] = true
				if facts {
					cur.PureFacts[a] = true
				}
			}
		case "inlines":
			if cur.Inlines == nil {
				cur.Inlines = map[string]bool{}
			}
			for _, a := range strings.Split(rest, ",") {
				a = strings.TrimSpace(a)
				if !strings.Contains(a, ".") || strings.HasPrefix(a, "(") {
					a = pkg + "." + a
				}
				cur.Inlines[a] = true
			}
		case "divabstract":
			cur.DivAbstract = true
		case "nosafety":
			cur.NoSafety = true
		case "assumecalls":
			cur.AssumeCalls = true
		case "scratch":
			for _, a := range splitTop(rest, ',') {
				cur.Scratch = append(cur.Scratch, strings.TrimSpace(a))
			}
		case "use":
			if ord != "" {
				loop().Uses = append(loop().Uses, rest)
			} else if i := strings.Index(rest, " at return"); i >= 0 {
				cur.UsesAtReturn = append(cur.UsesAtReturn, strings.TrimSpace(rest[:i]+rest[i+10:]))
			} else {
				cur.Uses = append(cur.Uses, rest)
			}
		case "unfold":
			if ord != "" {
				loop().Unfolds = append(loop().Unfolds, rest)
			} else if i := strings.Index(rest, " at return"); i >= 0 {
				cur.UnfoldsAtReturn = append(cur.UnfoldsAtReturn, strings.TrimSpace(rest[:i]+rest[i+10:]))
			} else {
				cur.Unfolds = append(cur.Unfolds, rest)
			}
		case "induct":
			cur.Inducts = append(cur.Inducts, rest)
		case "measure":
			m := mk(rest)
			cur.Measure = &m
		case "hide":
			for _, r := range strings.Split(rest, ",") {
				r = strings.TrimSpace(r)
				if !strings.Contains(r, ".") {
					r = pkg + "." + r
				}
				cur.Hide = append(cur.Hide, r)
			}
		case "reveal":
			for _, r := range strings.Split(rest, ",") {
				cur.Reveal = append(cur.Reveal, strings.TrimSpace(r))
			}
		default:
			cs.errf("%s: unknown clause %q", loc, kw)
		}
	}
}

func (cs *ContractSet) add(c *Contract, loc string) {
	k := c.Pkg + "." + c.Key
	if _, dup := cs.Contracts[k]; dup {
		cs.errf("%s: duplicate contract for %s", loc, k)
	}
	cs.Contracts[k] = c
	cs.Order = append(cs.Order, k)
}

// parseSig parses  name(a T, b U) R = body   (R and body optional)
func parseSig(s string) (name string, params []SpecParam, res string, body string, err error) {
	i := strings.Index(s, "(")
	if i < 0 {
		return "", nil, "", "", fmt.Errorf("missing ( in signature %q", s)
	}
	name = strings.TrimSpace(s[:i])
	depth := 0
	j := i
	for ; j < len(s); j++ {
		if s[j] == '(' {
			depth++
		} else if s[j] == ')' {
			depth--
			if depth == 0 {
				break
			}
		}
	}
	if j >= len(s) {
		return "", nil, "", "", fmt.Errorf("unbalanced signature %q", s)
	}
	ps := strings.TrimSpace(s[i+1 : j])
	if ps != "" {
		for _, p := range strings.Split(ps, ",") {
			f := strings.Fields(p)
			if len(f) != 2 {
				return "", nil, "", "", fmt.Errorf("bad parameter %q", p)
			}
			params = append(params, SpecParam{f[0], f[1]})
		}
	}
	rest := strings.TrimSpace(s[j+1:])
	eq := strings.Index(rest, " = ")
	if eq < 0 && strings.HasPrefix(rest, "= ") {
		eq = -1
		rest = " " + rest
		eq = 0
	}
	if eq >= 0 {
		res = strings.TrimSpace(rest[:eq])
		body = strings.TrimSpace(rest[eq+3:])
	} else {
		res = rest
	}
	return
}

// splitTop splits at top-level occurrences of sep (outside brackets)
func splitTop(s string, sep byte) []string {
	var out []string
	depth := 0
	last := 0
	for i := 0; i < len(s); i++ {
		switch s[i] {
		case '(', '[', '{':
			depth++
		case ')', ']', '}':
			depth--
		case '"':
			for i++; i < len(s) && s[i] != '"'; i++ {
			}
		default:
			if s[i] == sep && depth == 0 {
				out = append(out, s[last:i])
				last = i + 1
			}
		}
	}
	out = append(out, s[last:])
	return out
}

// rewriteImplies turns  A ==> B  into implies(A, B) and A <==> B into iff(A, B)
func rewriteImplies(s string) string {
	parts := splitTop(s, ',')
	if len(parts) > 1 {
		for i := range parts {
			parts[i] = rewriteImplies(parts[i])
		}
		return strings.Join(parts, ",")
	}
	if i := findTop(s, "<==>"); i >= 0 {
		return "iff(" + rewriteImplies(s[:i]) + ", " + rewriteImplies(s[i+4:]) + ")"
	}
	if i := findTop(s, "==>"); i >= 0 {
		return "implies(" + rewriteImplies(s[:i]) + ", " + rewriteImplies(s[i+3:]) + ")"
	}
	// descend into bracket groups
	var b strings.Builder
	for i := 0; i < len(s); i++ {
		if s[i] == '(' || s[i] == '[' {
			j := matchClose(s, i)
			if j < 0 {
				return s
			}
			b.WriteByte(s[i])
			b.WriteString(rewriteImplies(s[i+1 : j]))
			b.WriteByte(s[j])
			i = j
		} else {
			b.WriteByte(s[i])
		}
	}
	return b.String()
}

func matchClose(s string, i int) int {
	depth := 0
	for j := i; j < len(s); j++ {
		switch s[j] {
		case '(', '[', '{':
			depth++
		case ')', ']', '}':
			depth--
			if depth == 0 {
				return j
			}
		case '"':
			for j++; j < len(s) && s[j] != '"'; j++ {
			}
		}
	}
	return -1
}

func findTop(s, pat string) int {
	depth := 0
	for i := 0; i+len(pat) <= len(s); i++ {
		switch s[i] {
		case '(', '[', '{':
			depth++
		case ')', ']', '}':
			depth--
		case '"':
			for i++; i < len(s) && s[i] != '"'; i++ {
			}
		}
		if depth == 0 && strings.HasPrefix(s[i:], pat) {
			// "<==>" contains "==>": make sure we do not match inside it
			if pat == "==>" && i > 0 && s[i-1] == '<' {
				continue
			}
			return i
		}
	}
	return -1
}

func parseSpecExpr(src string) (ast.Expr, error) {
	if strings.TrimSpace(src) == "" {
		return nil, fmt.Errorf("empty expression")
	}
	r := rewriteImplies(src)
	e, err := parser.ParseExprFrom(token.NewFileSet(), "", r, 0)
	if err != nil {
		return nil, fmt.Errorf("parse error %v (after rewriting: %s)", err, r)
	}
	return e, nil
}

// mentionsGhost: the spec text refers to one of the contract's ghost variables
func (ct *Contract) mentionsGhost(src string) bool {
	for _, g := range ct.Ghosts {
		if regexp.MustCompile(`\b` + regexp.QuoteMeta(g.Name) + `\b`).MatchString(src) {
			return true
		}
	}
	return false
}
