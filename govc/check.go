package main

// `govc check <Cxx>`: verify every unit tagged with the property, apply known findings,
// compare with the committed baseline of obligations, write evidence and replay files.

import (
	"encoding/json"
	"fmt"
	"os"
	"path/filepath"
	"regexp"
	"sort"
	"strconv"
	"strings"
	"time"
)

// loadSpecLib reads /verif/spec/*.smt2 (define-funs shared by all units)
func (p *Program) loadSpecLib(verif string) {
	files, _ := filepath.Glob(filepath.Join(verif, "spec", "*.smt2"))
	sort.Strings(files)
	var b strings.Builder
	for _, f := range files {
		data, err := os.ReadFile(f)
		if err != nil {
			continue
		}
		b.Write(data)
		b.WriteString("\n")
		for _, ln := range strings.Split(string(data), "\n") {
			ln = strings.TrimSpace(ln)
			for _, pre := range []string{"(define-fun ", "(declare-fun ", "(define-fun-rec "} {
				if strings.HasPrefix(ln, pre) {
					f := strings.Fields(ln[len(pre):])
					if len(f) > 0 {
						p.specLibNames[f[0]] = true
					}
				}
			}
		}
	}
	p.specLib = b.String()
}

type KnownFinding struct {
	Property   string `json:"property"`
	Obligation string `json:"obligation"` // obligation name without split suffix / return ordinal
	CarveOut   string `json:"carve_out,omitempty"`
	What       string `json:"what"`
	Witness    string `json:"witness,omitempty"`
	Status     string `json:"status"` // "open" or "fixed"
	Commit     string `json:"commit,omitempty"`
}

type KnownFile struct {
	Findings []KnownFinding `json:"findings"`
	Fixed    []string       `json:"fixed,omitempty"`
}

func loadKnown(verif string) []KnownFinding {
	data, err := os.ReadFile(filepath.Join(verif, "known_findings.json"))
	if err != nil {
		return nil
	}
	var kf KnownFile
	if err := json.Unmarshal(data, &kf); err != nil {
		fmt.Fprintln(os.Stderr, "known_findings.json:", err)
		return nil
	}
	var out []KnownFinding
	for _, f := range kf.Findings {
		if f.Status != "fixed" {
			out = append(out, f)
		}
	}
	return out
}

type PropMeta struct {
	Level       string   `json:"level"`
	NotCovered  []string `json:"not_covered"`
	Assumptions []string `json:"assumptions"`
	Bounded     []string `json:"bounded"`
}

func loadMeta(verif string) map[string]PropMeta {
	m := map[string]PropMeta{}
	data, err := os.ReadFile(filepath.Join(verif, "properties_meta.json"))
	if err == nil {
		json.Unmarshal(data, &m)
	}
	return m
}

var retOrdRe = regexp.MustCompile(`#([a-z\-@A-Za-z0-9_.()*/ $]+?)\[\d+\]:`)
var splitSufRe = regexp.MustCompile(`(\[[^\[\]=]+=-?\d+\])+$`)

// baseKey: obligation name with occurrence ordinals and split suffixes removed
var knownSufRe = regexp.MustCompile(`\{known:\d+\}$`)

func baseKey(name string) string {
	name = knownSufRe.ReplaceAllString(name, "")
	name = splitSufRe.ReplaceAllString(name, "")
	return retOrdRe.ReplaceAllString(name, "#$1:")
}

func explicitKind(k string) bool {
	switch {
	case k == "ensures", k == "invariant-init", k == "invariant-step", k == "decreases", k == "assert", k == "cut", k == "assigns", k == "unwind", k == "vacuity", k == "ground", k == "frozen", k == "split-exhaustive", k == "spec-termination", k == "measure", k == "writers", k == "noninterference", k == "exhaustive":
		return true
	case strings.HasPrefix(k, "requires@"):
		return true
	}
	return false
}

type Violation struct {
	Property   string `json:"property"`
	Obligation string `json:"obligation"`
	Kind       string `json:"kind"`
	Status     string `json:"status"`
	Pos        string `json:"pos,omitempty"`
	Solver     string `json:"solver,omitempty"`
	Output     string `json:"solver_output,omitempty"`
	SMTFile    string `json:"smt_file,omitempty"`
	Reason     string `json:"reason"`
	Replay     *ReplayResult `json:"replay,omitempty"`
}

func runCheck(repo, verif, prop, tier string, verbose, keep bool) int {
	t0 := time.Now()
	seed := 0
	if s := os.Getenv("VERIF_SEED"); s != "" {
		seed, _ = strconv.Atoi(s)
	}
	evPath := filepath.Join(verif, "evidence", prop+".json")
	os.MkdirAll(filepath.Dir(evPath), 0o755)
	os.MkdirAll(filepath.Join(verif, "replays"), 0o755)
	var violations []Violation
	var knownLines []string
	addViol := func(v Violation) { violations = append(violations, v) }

	p, err := loadProgram(repo)
	if err != nil {
		// the tree does not load (does not compile with the tag on): nothing can be decided
		fmt.Println("govc: cannot load repository:", err)
		addViol(Violation{Property: prop, Obligation: "load", Kind: "load", Status: "error", Reason: "repository does not load: " + err.Error()})
		return finish(verif, prop, tier, seed, t0, nil, nil, violations, nil, nil, nil, evPath)
	}
	for _, e := range p.cs.Errors {
		addViol(Violation{Property: prop, Obligation: "contracts", Kind: "contract-syntax", Status: "error", Reason: e})
	}
	p.loadSpecLib(verif)
	p.groundErr = p.dumpGround(verif)
	known := loadKnown(verif)
	p.known = map[string][]KnownFinding{}
	for _, k := range known {
		if k.Property == prop {
			p.known[k.Obligation] = append(p.known[k.Obligation], k)
		}
	}
	var tasks []Task
	for _, k := range p.cs.Order {
		ct := p.contracts[k]
		has := false
		for _, pr := range ct.Props {
			if pr == prop {
				has = true
			}
		}
		if !has {
			if labels := ct.PropFor[prop]; len(labels) > 0 {
				// the unit serves this property with the named clauses only
				for _, t := range p.unitTasks(ct) {
					if t.Drop != nil {
						keep := false
						for _, l := range labels {
							if !contains(t.Drop, l) {
								keep = true
							}
						}
						if !keep {
							continue
						}
					}
					if t.Keep != nil {
						var both []string
						for _, l := range labels {
							if contains(t.Keep, l) {
								both = append(both, l)
							}
						}
						if len(both) == 0 {
							continue
						}
						t.Keep = both
					} else {
						t.Keep = labels
					}
					t.PropOverride = prop
					tasks = append(tasks, t)
				}
			}
			continue
		}
		if ct.IsLemma && len(ct.Enums) > 0 {
			continue // decided by exhaustive execution (execObligations below)
		}
		tasks = append(tasks, p.unitTasks(ct)...)
	}
	cfg := solverCfg(verif, tier, prop)
	cfg.Known = p.known
	cfg.Keep = keep
	all, units := p.runPipeline(cfg, tasks)
	sort.Slice(units, func(i, j int) bool { return units[i].Name+units[i].Suffix < units[j].Name+units[j].Suffix })
	for _, u := range units {
		if u.Err != "" {
			addViol(Violation{Property: prop, Obligation: u.Name + "#unit" + u.Suffix, Kind: "undecided", Status: "error",
				Reason: "the unit could not be translated: " + u.Err})
		}
	}
	// ground facts / frozen-global checks for this property
	gobl := p.groundObligations(verif, prop, tier)
	all = append(all, gobl...)
	all = append(all, p.writersObligations(prop)...)
	all = append(all, p.execObligations(prop, nil)...)
	sort.Slice(all, func(i, j int) bool { return all[i].Name < all[j].Name })

	// baseline of explicit obligations
	seen := map[string]bool{}
	for _, o := range all {
		seen[baseKey(o.Name)] = true
	}
	base := loadBaseline(verif, prop)
	for _, b := range base {
		if !seen[b] {
			addViol(Violation{Property: prop, Obligation: b, Kind: "obligation-missing", Status: "missing",
				Reason: "an obligation recorded in the committed baseline was not generated on this tree (contract silently lost its target or clause)"})
		}
	}
	if os.Getenv("GOVC_WRITE_BASELINE") == "1" {
		writeBaseline(verif, prop, all)
	}
	discharged := 0
	for _, o := range all {
		if o.ok() {
			discharged++
			continue
		}
		if o.KnownInside != nil {
			// the obligation restricted to the carve-out of a known finding
			continue
		}
		v := Violation{Property: prop, Obligation: o.Name, Kind: o.Kind, Status: o.Status, Pos: o.Pos, Solver: o.Solver,
			Output: truncate(o.Output, 6000)}
		switch o.Status {
		case "sat":
			v.Reason = "counterexample found by " + o.Solver
		case "disagree":
			v.Reason = "solvers disagree"
		default:
			v.Reason = "obligation not discharged (" + o.Status + "); it is in the committed baseline as discharged"
		}
		if o.Expect == "sat" {
			v.Reason = "vacuity guard failed: " + o.Status + " (precondition contradictory or no path reaches the return)"
		}
		addViol(v)
	}
	// known findings: report those whose carve-out still fails
	for _, o := range all {
		if o.KnownInside != nil && !o.ok() {
			k := o.KnownInside
			line := fmt.Sprintf("KNOWN-FINDING: property=%s %s [%s]", prop, k.What, baseKey(o.Name))
			dup := false
			for _, l := range knownLines {
				if l == line {
					dup = true
				}
			}
			if !dup {
				knownLines = append(knownLines, line)
			}
		}
	}
	// replay
	for i := range violations {
		v := &violations[i]
		var ob *Oblig
		for _, o := range all {
			if o.Name == v.Obligation {
				ob = o
			}
		}
		v.Replay = p.replay(verif, prop, v, ob)
	}
	if !keep {
		os.RemoveAll(cfg.WorkDir)
	}
	return finish(verif, prop, tier, seed, t0, p, units, violations, knownLines, all, cfg, evPath)
}

func contains(l []string, x string) bool {
	for _, y := range l {
		if y == x {
			return true
		}
	}
	return false
}

func loadBaseline(verif, prop string) []string {
	data, err := os.ReadFile(filepath.Join(verif, "baseline", prop+".json"))
	if err != nil {
		return nil
	}
	var out []string
	json.Unmarshal(data, &out)
	return out
}

func writeBaseline(verif, prop string, all []*Oblig) {
	set := map[string]bool{}
	for _, o := range all {
		if explicitKind(o.Kind) && o.KnownInside == nil {
			set[baseKey(o.Name)] = true
		}
	}
	var out []string
	for k := range set {
		out = append(out, k)
	}
	sort.Strings(out)
	os.MkdirAll(filepath.Join(verif, "baseline"), 0o755)
	data, _ := json.MarshalIndent(out, "", " ")
	os.WriteFile(filepath.Join(verif, "baseline", prop+".json"), data, 0o644)
}

func finish(verif, prop, tier string, seed int, t0 time.Time, p *Program, units []*Unit, violations []Violation, knownLines []string, all []*Oblig, cfg *SolverCfg, evPath string) int {
	meta := loadMeta(verif)[prop]
	level := meta.Level
	if level == "" {
		level = "proof"
	}
	byKind := map[string]int{}
	wins := map[string]int{}
	solverSecs := 0.0
	discharged := 0
	var samples []map[string]interface{}
	var slowest []*Oblig
	var counted []*Oblig
	for _, o := range all {
		if o.KnownInside == nil {
			counted = append(counted, o)
		}
	}
	nKnown := len(all) - len(counted)
	all = counted
	for _, o := range all {
		byKind[kindGroup(o.Kind)]++
		if o.ok() {
			discharged++
			wins[o.Solver]++
		}
		solverSecs += o.Secs
		slowest = append(slowest, o)
	}
	sort.Slice(slowest, func(i, j int) bool { return slowest[i].Secs > slowest[j].Secs })
	for i, o := range slowest {
		if i >= 6 {
			break
		}
		samples = append(samples, map[string]interface{}{"obligation": o.Name, "kind": o.Kind, "status": o.Status, "solver": o.Solver,
			"seconds": round3(o.Secs), "smt_bytes": o.SMTBytes, "pos": o.Pos})
	}
	var fns []map[string]interface{}
	trustedSet := map[string]bool{}
	var unitErrs []string
	for _, u := range units {
		mode := "verified"
		if u.Ct.Trusted {
			mode = "trusted"
		}
		if u.Ct.IsLemma {
			mode = "lemma"
		}
		fns = append(fns, map[string]interface{}{"unit": u.Name, "mode": mode, "obligations": u.NObl, "instance": u.Suffix})
		for _, t := range u.Trusted {
			trustedSet[t] = true
		}
		if u.Err != "" {
			unitErrs = append(unitErrs, u.Name+": "+u.Err)
		}
	}
	var inlined, used, libs []string
	if p != nil {
		for k := range p.usedContracts {
			used = append(used, k)
		}
		for k := range p.libCalls {
			libs = append(libs, k)
		}
		for k := range p.inlined {
			inlined = append(inlined, k)
		}
	}
	sort.Strings(used)
	sort.Strings(libs)
	sort.Strings(inlined)
	var assumptions []string
	for t := range trustedSet {
		assumptions = append(assumptions, t)
	}
	sort.Strings(assumptions)
	assumptions = append(assumptions, meta.Assumptions...)
	if len(libs) > 0 {
		assumptions = append(assumptions, "library calls abstracted (result arbitrary, no effect on modelled state): "+strings.Join(libs, ", "))
	}
	assumptions = append(assumptions,
		"go/packages+go/types+go/ssa (x/tools v0.29.0) represent the program the Go compiler builds; govc's translation of SSA instructions",
		"integers are 64/32/16/8-bit vectors with Go semantics (nothing is treated as a mathematical integer); target amd64",
		"soundness of z3 4.8.12 / z3 5.1.0 / cvc5 1.0.x (thorough tier: unsat confirmed by a second solver)",
		"pointer parameters are non-nil unless the unit is marked nilcheck; Go runtime failures other than index/nil/slice/div/shift/makeslice panics are not modelled")
	cov := map[string]interface{}{
		"obligations":              len(all),
		"discharged":               discharged,
		"checker_cmd":              fmt.Sprintf("/verif/bin/check %s --tier %s", prop, tier),
		"trusted_base":             []string{"govc VC generator (/verif/govc)", "golang.org/x/tools v0.29.0 go/ssa", "z3 5.1.0", "z3 4.8.12", "cvc5 1.0"},
		"functions_under_contract": fns,
		"callee_contracts_used":    used,
		"functions_inlined":        inlined,
		"obligations_by_kind":      byKind,
		"solver_wins":              wins,
		"solver_seconds":           round3(solverSecs),
		"samples":                  samples,
		"known_findings_reported":  knownLines,
		"known_finding_instances":  nKnown,
		"clauses_not_covered":      meta.NotCovered,
		"bounded_stand_ins":        meta.Bounded,
		"unit_errors":              unitErrs,
		"explanation":              "contract-based deductive verification: obligations generated from the go/ssa form of /repo's working tree and discharged by SMT solvers; see DESIGN.md",
	}
	if len(samples) == 0 {
		cov["samples"] = []string{"(no obligation generated)"}
	}
	ev := map[string]interface{}{
		"property_id": prop, "tier": tier, "seed": seed, "level": level, "coverage": cov,
		"assumptions": assumptions, "wall_s": round3(time.Since(t0).Seconds()), "violations": len(violations),
	}
	data, _ := json.MarshalIndent(ev, "", " ")
	os.WriteFile(evPath, data, 0o644)
	for _, l := range knownLines {
		fmt.Println(l)
	}
	fmt.Printf("property %s: %d obligations, %d discharged, %d violations, %.1fs\n", prop, len(all), discharged, len(violations), time.Since(t0).Seconds())
	if len(all) == 0 && len(violations) == 0 {
		fmt.Printf("VIOLATION property=%s replay=%s no-failing-input-found\n", prop, writeReplayFile(verif, prop, &Violation{Property: prop, Obligation: "none", Kind: "vacuity", Reason: "no obligation was generated for this property"}))
		return 1
	}
	for i := range violations {
		v := &violations[i]
		path := writeReplayFile(verif, prop, v)
		suffix := ""
		if v.Replay == nil || !v.Replay.Confirmed {
			suffix = " no-failing-input-found"
		}
		fmt.Printf("VIOLATION property=%s replay=%s%s\n", prop, path, suffix)
		fmt.Printf("  obligation %s (%s): %s\n", v.Obligation, v.Status, v.Reason)
	}
	if len(violations) > 0 {
		return 1
	}
	return 0
}

func kindGroup(k string) string {
	if strings.HasPrefix(k, "requires@") {
		return "requires@call"
	}
	return k
}

func round3(f float64) float64 { return float64(int(f*1000+0.5)) / 1000 }

func writeReplayFile(verif, prop string, v *Violation) string {
	name := sanitize(v.Obligation)
	if len(name) > 120 {
		name = name[:120]
	}
	path := filepath.Join(verif, "replays", prop+"-"+name+".json")
	data, _ := json.MarshalIndent(v, "", " ")
	os.WriteFile(path, data, 0o644)
	return path
}
