package main

// Lemmas decided by exhaustive execution (`enumerate` clauses): statements about the tables that
// package initialisation builds, over a finite domain that is enumerated completely - e.g. every
// square and every subset of its magic mask.  The initialiser has no input, so running it is
// exact; the lemma's clauses are translated mechanically from the contract language to Go (the
// same translation as the replay driver) and evaluated for every element of the domain in an
// in-package test injected with `go test -overlay`.  The enumerated domain is the lemma's
// precondition (generated from the enumerate clauses), so a `use` of the lemma has to prove that
// its arguments lie in the domain.

import (
	"encoding/json"
	"fmt"
	"os"
	"os/exec"
	"path/filepath"
	"regexp"
	"sort"
	"strings"
	"time"
)

func (ct *Contract) hasProp(prop string) bool {
	for _, pr := range ct.Props {
		if pr == prop {
			return true
		}
	}
	return false
}

func (p *Program) execObligations(prop string, only []string) []*Oblig {
	var out []*Oblig
	for _, k := range p.cs.Order {
		ct := p.contracts[k]
		if ct == nil || !ct.IsLemma || len(ct.Enums) == 0 {
			continue
		}
		if prop != "" && !ct.hasProp(prop) {
			continue
		}
		if len(only) > 0 {
			hit := false
			for _, o := range only {
				if strings.Contains(k, o) {
					hit = true
				}
			}
			if !hit {
				continue
			}
		}
		out = append(out, p.execLemma(k, ct)...)
	}
	return out
}

func (p *Program) execLemma(unit string, ct *Contract) []*Oblig {
	t0 := time.Now()
	mk := func(label, status, outp string) *Oblig {
		return &Oblig{Name: unit + "#exhaustive:" + label, Label: label, Kind: "exhaustive", Fn: unit, Status: status, Solver: "go-exec", Output: outp, Props: ct.Props, Pos: ct.File}
	}
	fail := func(format string, a ...interface{}) []*Oblig {
		return []*Oblig{mk("setup", "error", fmt.Sprintf(format, a...))}
	}
	sp := p.spkgs[ct.Pkg]
	if sp == nil {
		return fail("package %s not found", ct.Pkg)
	}
	pkgPath := sp.Pkg.Path()
	g := &goTrans{p: p, ct: ct, ptrs: map[string]bool{}, specs: map[string]bool{}, imports: map[string]bool{}, bound: map[string]bool{}}
	typ := map[string]string{}
	for _, q := range ct.Params {
		typ[q.Name] = q.Typ
		g.bound[q.Name] = true
	}
	enumerated := map[string]bool{}
	var open, closeS strings.Builder
	var caseFmt, caseArgs []string
	for _, en := range ct.Enums {
		t, ok := typ[en.Var]
		if !ok {
			return fail("enumerate %s: not a parameter", en.Var)
		}
		enumerated[en.Var] = true
		if en.Expr == "" {
			fmt.Fprintf(&open, "\tfor raw_%s := %d; raw_%s <= %d; raw_%s++ {\n\t%s := %s(raw_%s)\n", en.Var, en.Lo, en.Var, en.Hi, en.Var, en.Var, t, en.Var)
			closeS.WriteString("\t}\n")
			caseFmt = append(caseFmt, en.Var+"=%d")
			caseArgs = append(caseArgs, "int64("+en.Var+")")
		} else {
			x, err := parseSpecExpr(en.Expr)
			if err != nil {
				return fail("enumerate %s: %v", en.Var, err)
			}
			s, err := g.tr(x)
			if err != nil {
				return fail("enumerate %s: %v", en.Var, err)
			}
			// Carry-Rippler enumeration of all subsets of the mask
			fmt.Fprintf(&open, "\tmask_%s := %s(%s)\n\tfor %s, first_%s := %s(0), true; first_%s || %s != 0; %s, first_%s = (%s-mask_%s)&mask_%s, false {\n", en.Var, t, s, en.Var, en.Var, t, en.Var, en.Var, en.Var, en.Var, en.Var, en.Var, en.Var)
			closeS.WriteString("\t}\n")
			caseFmt = append(caseFmt, en.Var+"=%#x")
			caseArgs = append(caseArgs, "uint64("+en.Var+")")
		}
	}
	for _, q := range ct.Params {
		if !enumerated[q.Name] {
			return fail("parameter %s has no enumerate clause", q.Name)
		}
	}
	var body strings.Builder
	for _, r := range ct.Requires {
		if strings.HasPrefix(r.Label, "enum_") {
			continue
		}
		s, err := g.tr(r.E)
		if err != nil {
			return fail("requires %q: %v", r.Src, err)
		}
		fmt.Fprintf(&body, "\t\tif !(%s) {\n\t\t\tcontinue\n\t\t}\n", s)
	}
	body.WriteString("\t\tcases++\n")
	var labels []string
	for i, en := range ct.Ensures {
		s, err := g.tr(en.E)
		if err != nil {
			return fail("ensures %q: %v", en.Src, err)
		}
		label := en.Label
		if label == "" {
			label = fmt.Sprint(i)
		}
		labels = append(labels, label)
		fmt.Fprintf(&body, "\t\tif !failed[%d] && !(%s) {\n\t\t\tfailed[%d] = true\n\t\t\tfmt.Printf(\"GOVC-EXH fail clause=%s %s\\n\", %s)\n\t\t}\n",
			i, s, i, label, strings.Join(caseFmt, " "), strings.Join(caseArgs, ", "))
	}
	specs, err := g.specFuncs()
	if err != nil {
		return fail("%v", err)
	}
	pkgName := pkgPath[strings.LastIndex(pkgPath, "/")+1:]
	imps := []string{`"fmt"`, `"testing"`}
	if pkgPath != modulePath+"/internal/types" {
		imps = append(imps, `. "`+modulePath+`/internal/types"`)
	}
	var ips []string
	for ip := range g.imports {
		ips = append(ips, ip)
	}
	sort.Strings(ips)
	for _, ip := range ips {
		if ip != pkgPath && ip != modulePath+"/internal/types" {
			imps = append(imps, `"`+ip+`"`)
		}
	}
	src := "//go:build go1.18\n\npackage " + pkgName + "\n\nimport (\n\t" + strings.Join(imps, "\n\t") + "\n)\n\nvar _ = MoveNone\n\n" + replayHelpers + specs +
		"\nfunc TestGovcExhaustive(t *testing.T) {\n\tcases := 0\n\tfailed := make([]bool, " + fmt.Sprint(len(ct.Ensures)+1) + ")\n" +
		"\tdefer func() {\n\t\tif r := recover(); r != nil {\n\t\t\tfmt.Printf(\"GOVC-EXH panic=%v after %d cases\\n\", r, cases)\n\t\t}\n\t}()\n" +
		open.String() + body.String() + closeS.String() + "\tfmt.Printf(\"GOVC-EXH done cases=%d\\n\", cases)\n}\n"
	rel := strings.TrimPrefix(pkgPath, modulePath+"/")
	outp := runOverlayTest(p.root, rel, src, "^TestGovcExhaustive$", 600*time.Second)
	secs := time.Since(t0).Seconds()
	var res []*Oblig
	done := regexp.MustCompile(`GOVC-EXH done cases=(\d+)`).FindStringSubmatch(outp)
	for _, l := range labels {
		o := mk(l, "unsat", "")
		o.Secs = secs / float64(len(labels))
		if fm := regexp.MustCompile(`GOVC-EXH fail clause=` + regexp.QuoteMeta(l) + ` (.*)`).FindStringSubmatch(outp); fm != nil {
			o.Status = "sat"
			o.Output = "fails on the initialised tables for " + fm[1]
			o.Model = src
		} else if done == nil || done[1] == "0" {
			o.Status = "error"
			o.Output = "exhaustive run did not complete: " + tail(outp, 1500)
		} else {
			o.Output = "held for all " + done[1] + " cases of the enumerated domain"
		}
		res = append(res, o)
	}
	return res
}

func tail(s string, n int) string {
	if len(s) > n {
		return s[len(s)-n:]
	}
	return s
}

// runOverlayTest runs an injected in-package test and returns the combined output
func runOverlayTest(repo, rel, src, run string, limit time.Duration) string {
	dir, err := os.MkdirTemp("", "govc-exec")
	if err != nil {
		return err.Error()
	}
	defer os.RemoveAll(dir)
	tf := filepath.Join(dir, "zz_govc_exec_test.go")
	os.WriteFile(tf, []byte(src), 0o644)
	ov, _ := json.Marshal(map[string]map[string]string{"Replace": {filepath.Join(repo, rel, "zz_govc_exec_test.go"): tf}})
	of := filepath.Join(dir, "overlay.json")
	os.WriteFile(of, ov, 0o644)
	cmd := exec.Command("go", "test", "-overlay", of, "-vet=off", "-count=1", "-timeout", fmt.Sprintf("%ds", int(limit.Seconds())), "-v", "-run", run, "./"+rel+"/")
	cmd.Dir = repo
	cmd.Env = append(os.Environ(), "GOFLAGS=-mod=mod", "GOPROXY=off", "GOSUMDB=off", "GOTOOLCHAIN=local")
	out, _ := cmd.CombinedOutput()
	return string(out)
}
