package main

// Symbolic executor over go/ssa producing passive-form definitions, assumptions and
// obligations.  Loops are cut at headers (invariant rule) or unrolled (constant trip
// count with unwinding assertion); calls use callee contracts, inlining, or the allowlist.

import (
	"fmt"
	"go/constant"
	"go/token"
	"go/types"
	"math/big"
	"sort"
	"strings"
	"sync"

	"golang.org/x/tools/go/ssa"
)

type Edge struct {
	From, To *ssa.BasicBlock
	Cond     Term
	St       *State
}

type RetEdge struct {
	Cond Term
	St   *State
	Res  []Val
	Pos  token.Pos
}

type LoopInfo struct {
	Header *ssa.BasicBlock
	Body   map[*ssa.BasicBlock]bool
	Ord    int // ordinal in source order
	Parent *LoopInfo
}

type FuncInfo struct {
	Fn      *ssa.Function
	RPO     []*ssa.BasicBlock
	rpoIdx  map[*ssa.BasicBlock]int
	Loops   map[*ssa.BasicBlock]*LoopInfo // by header
	LoopOrd []*LoopInfo
}

var funcInfoCache = map[*ssa.Function]*FuncInfo{}

var analyzeMu sync.Mutex

func analyze(fn *ssa.Function) *FuncInfo {
	analyzeMu.Lock()
	defer analyzeMu.Unlock()
	if fi, ok := funcInfoCache[fn]; ok {
		return fi
	}
	fi := &FuncInfo{Fn: fn, rpoIdx: map[*ssa.BasicBlock]int{}, Loops: map[*ssa.BasicBlock]*LoopInfo{}}
	if len(fn.Blocks) == 0 {
		funcInfoCache[fn] = fi
		return fi
	}
	// reverse postorder
	seen := map[*ssa.BasicBlock]bool{}
	var post []*ssa.BasicBlock
	var dfs func(b *ssa.BasicBlock)
	dfs = func(b *ssa.BasicBlock) {
		seen[b] = true
		for _, s := range b.Succs {
			if !seen[s] {
				dfs(s)
			}
		}
		post = append(post, b)
	}
	dfs(fn.Blocks[0])
	for i := len(post) - 1; i >= 0; i-- {
		fi.rpoIdx[post[i]] = len(fi.RPO)
		fi.RPO = append(fi.RPO, post[i])
	}
	// back edges: u->h with h dominating u
	for _, u := range fi.RPO {
		for _, h := range u.Succs {
			if h.Dominates(u) {
				li := fi.Loops[h]
				if li == nil {
					li = &LoopInfo{Header: h, Body: map[*ssa.BasicBlock]bool{h: true}}
					fi.Loops[h] = li
				}
				// natural loop: nodes reaching u without passing h
				stack := []*ssa.BasicBlock{u}
				for len(stack) > 0 {
					x := stack[len(stack)-1]
					stack = stack[:len(stack)-1]
					if li.Body[x] {
						continue
					}
					li.Body[x] = true
					for _, p := range x.Preds {
						stack = append(stack, p)
					}
				}
			}
		}
	}
	for _, li := range fi.Loops {
		fi.LoopOrd = append(fi.LoopOrd, li)
	}
	sort.Slice(fi.LoopOrd, func(i, j int) bool {
		pi, pj := loopPos(fi.LoopOrd[i]), loopPos(fi.LoopOrd[j])
		if pi != pj {
			return pi < pj
		}
		return fi.LoopOrd[i].Header.Index < fi.LoopOrd[j].Header.Index
	})
	for i, li := range fi.LoopOrd {
		li.Ord = i
	}
	// nesting: parent = smallest strictly containing loop
	for _, li := range fi.LoopOrd {
		for _, lj := range fi.LoopOrd {
			if li == lj || !lj.Body[li.Header] || len(lj.Body) <= len(li.Body) {
				continue
			}
			if li.Parent == nil || len(lj.Body) < len(li.Parent.Body) {
				li.Parent = lj
			}
		}
	}
	funcInfoCache[fn] = fi
	return fi
}

func loopPos(li *LoopInfo) token.Pos {
	var best token.Pos
	for b := range li.Body {
		for _, in := range b.Instrs {
			if p := in.Pos(); p.IsValid() && (best == 0 || p < best) {
				best = p
			}
		}
	}
	return best
}

// ---------------------------------------------------------------------------------------------

type Exec struct {
	c        *Ctx
	prog     *Program
	unit     string // name of the function/lemma under verification (obligation prefix)
	props    []string
	depth    int
	safety   bool // emit implicit safety obligations (index, div, ...)
	nilcheck bool
	nosplit  bool
	divAbstract bool
	abstractAll bool
	assumeCalls bool
	callOrd  map[string]int // per callee: how many calls were executed at top level so far (anchors "call X #k")
	inlines  map[string]bool
	pureCalls map[string]bool
	pureFacts map[string]bool
	poison   []string // names of the constants standing for the entry values of scratch locations
	exhaustOnly bool
	errs     []string
	trusted  map[string]bool // assumptions used (for the evidence)
	kindCnt  map[string]int
	curFn    []*ssa.Function
	ghost    map[string]Val // ghost variables of the unit
	reveal   map[string]bool
	subst    map[string]int64
	refs     []Term     // object references known to be distinct from fresh allocations
	fresh    []Term     // references allocated during this unit
	entry    *unitEntry // entry state of the unit under verification
}

type unsupported struct{ msg string }

func (e *Exec) fail(format string, a ...interface{}) {
	panic(unsupported{fmt.Sprintf(format, a...)})
}

func (e *Exec) posStr(p token.Pos) string {
	if !p.IsValid() {
		return ""
	}
	ps := e.prog.fset.Position(p)
	return fmt.Sprintf("%s:%d", shortFile(ps.Filename), ps.Line)
}

func shortFile(f string) string {
	return strings.TrimPrefix(f, "/repo/")
}

func (e *Exec) srcText(p token.Pos, end token.Pos) string {
	return e.prog.sourceText(p, end)
}

// obligation emission with stable naming: <unit>#<kind>[n]:<label>
func (e *Exec) oblige(kind, label string, reach, goal Term, pos token.Pos) {
	if e.c.dry || e.c.quiet > 0 {
		return
	}
	if e.c.implies(reach, goal).S == "true" {
		return
	}
	e.kindCnt[kind+":"+label]++
	n := e.kindCnt[kind+":"+label]
	name := fmt.Sprintf("%s#%s:%s", e.unit, kind, label)
	if n > 1 {
		name = fmt.Sprintf("%s#%s[%d]:%s", e.unit, kind, n, label)
	}
	parts := []Term{goal}
	switch {
	case e.nosplit:
	case kind == "ensures", kind == "invariant-init", kind == "invariant-step", kind == "assert", kind == "cut", strings.HasPrefix(kind, "requires@"):
		parts = e.c.conjuncts(goal)
	}
	for i, part := range parts {
		g := e.c.implies(reach, part)
		if g.S == "true" {
			continue
		}
		nm := name
		if len(parts) > 1 {
			nm = fmt.Sprintf("%s.%d", name, i+1)
		}
		e.c.oblige(&Oblig{Name: nm, Label: label, Kind: kind, Fn: e.unit, Goal: g, Pos: e.posStr(pos), Props: e.props})
	}
}

// obligeRel: the terms ts (at a point reached under `reach`) do not depend on the poison constants
func (e *Exec) obligeRel(label string, reach Term, ts []Term, pos token.Pos) {
	if e.c.dry || e.c.quiet > 0 || len(ts) == 0 {
		return
	}
	e.kindCnt["noninterference:"+label]++
	n := e.kindCnt["noninterference:"+label]
	name := fmt.Sprintf("%s#noninterference:%s", e.unit, label)
	if n > 1 {
		name = fmt.Sprintf("%s#noninterference[%d]:%s", e.unit, n, label)
	}
	e.c.oblige(&Oblig{Name: name, Label: label, Kind: "noninterference", Fn: e.unit, Goal: reach, Pos: e.posStr(pos), Props: e.props,
		Rel: append([]string{}, e.poison...), RelTerms: ts})
}

// ---------------------------------------------------------------------------------------------
// function body execution

// runFunc executes fn's body from the given state; returns merged return edges.
func (e *Exec) runFunc(fn *ssa.Function, args []Val, cells map[string]Term, reach Term, spec *Contract) []RetEdge {
	if len(fn.Blocks) == 0 {
		e.fail("function %s has no body", fn)
	}
	if e.depth > 12 {
		e.fail("inline depth exceeded at %s", fn)
	}
	e.depth++
	e.curFn = append(e.curFn, fn)
	defer func() { e.depth--; e.curFn = e.curFn[:len(e.curFn)-1] }()
	fi := analyze(fn)
	st := &State{cells: cells, env: map[ssa.Value]Val{}, names: map[string]Val{}}
	for i, p := range fn.Params {
		st.env[p] = args[i]
		st.names[p.Name()] = args[i]
	}
	fr := &frame{e: e, fi: fi, spec: spec, pending: map[*ssa.BasicBlock][]Edge{}}
	fr.pending[fn.Blocks[0]] = []Edge{{To: fn.Blocks[0], Cond: reach, St: st}}
	fr.runRegion(nil)
	return fr.rets
}

type deferredCall struct {
	fn   *ssa.Function
	args []Val
	key  string // state cell: whether the defer statement was executed on this path
}

type frame struct {
	deferred []deferredCall
	e       *Exec
	fi      *FuncInfo
	spec    *Contract
	pending map[*ssa.BasicBlock][]Edge
	rets    []RetEdge
	done    map[*ssa.BasicBlock]bool
}

// runRegion processes the blocks of loop `in` (or the whole function when nil) in RPO,
// treating inner loops as super nodes.  Edges leaving the region stay in fr.pending.
func (fr *frame) runRegion(in *LoopInfo) {
	for _, b := range fr.fi.RPO {
		if in != nil && !in.Body[b] {
			continue
		}
		if li, ok := fr.fi.Loops[b]; ok && li != in {
			if li.Parent != in {
				continue // belongs to a deeper loop; handled by its parent
			}
			fr.runLoop(li)
			continue
		}
		// skip blocks that belong to an inner loop (processed by runLoop)
		if inner := fr.innermost(b); inner != in {
			continue
		}
		edges := fr.pending[b]
		delete(fr.pending, b)
		if len(edges) == 0 {
			continue
		}
		fr.execBlock(b, edges, in)
	}
}

func (fr *frame) innermost(b *ssa.BasicBlock) *LoopInfo {
	var best *LoopInfo
	for _, li := range fr.fi.LoopOrd {
		if li.Body[b] && (best == nil || len(li.Body) < len(best.Body)) {
			best = li
		}
	}
	return best
}

// merge incoming edges into one state + reach condition; evaluates phis
func (fr *frame) mergeEdges(b *ssa.BasicBlock, edges []Edge) (Term, *State) {
	c := fr.e.c
	var conds []Term
	for _, ed := range edges {
		conds = append(conds, ed.Cond)
	}
	reach := c.or(conds...)
	if len(edges) == 1 {
		st := edges[0].St.clone()
		fr.evalPhis(b, edges, st)
		return reach, st
	}
	st := newState()
	// cells
	keys := map[string]bool{}
	for _, ed := range edges {
		for k := range ed.St.cells {
			keys[k] = true
		}
	}
	for k := range keys {
		var terms []Term
		same := true
		for _, ed := range edges {
			t, ok := ed.St.cells[k]
			if !ok {
				t0, ok0 := c.initial[k]
				if !ok0 {
					// a cell first touched on another path: find its sort from that path
					for _, e2 := range edges {
						if t2, ok2 := e2.St.cells[k]; ok2 {
							if strings.HasPrefix(k, "l:") {
								t0 = c.zero(t2.Sort)
							} else {
								t0 = c.initialCell(k, t2.Sort)
							}
							break
						}
					}
				}
				t = t0
			}
			terms = append(terms, t)
			if t.S != terms[0].S {
				same = false
			}
		}
		if same {
			st.cells[k] = terms[0]
		} else {
			cur := terms[len(terms)-1]
			for i := len(terms) - 2; i >= 0; i-- {
				cur = c.ite(edges[i].Cond, terms[i], cur)
			}
			st.cells[k] = cur
		}
	}
	// env
	vals := map[ssa.Value]bool{}
	for _, ed := range edges {
		for k := range ed.St.env {
			vals[k] = true
		}
	}
	for v := range vals {
		var vs []Val
		all := true
		for _, ed := range edges {
			x, ok := ed.St.env[v]
			if !ok {
				all = false
				break
			}
			vs = append(vs, x)
		}
		if !all {
			continue // not defined on every path: cannot be used after the join (dominance)
		}
		cur := vs[len(vs)-1]
		for i := len(vs) - 2; i >= 0; i-- {
			if !valEqual(vs[i], cur) {
				cur = c.iteVal(edges[i].Cond, vs[i], cur)
			}
		}
		st.env[v] = cur
	}
	// source-level names
	nms := map[string]bool{}
	for _, ed := range edges {
		for k := range ed.St.names {
			nms[k] = true
		}
	}
	for nm := range nms {
		var vs []Val
		all := true
		for _, ed := range edges {
			x, ok := ed.St.names[nm]
			if !ok {
				all = false
				break
			}
			vs = append(vs, x)
		}
		if !all {
			continue
		}
		cur := vs[len(vs)-1]
		okm := true
		for i := len(vs) - 2; i >= 0; i-- {
			if !valEqual(vs[i], cur) {
				if len(vs[i].L) != len(cur.L) {
					okm = false
					break
				}
				cur = c.iteVal(edges[i].Cond, vs[i], cur)
			}
		}
		if okm {
			st.names[nm] = cur
		}
	}
	fr.evalPhis(b, edges, st)
	return reach, st
}

func (fr *frame) evalPhis(b *ssa.BasicBlock, edges []Edge, st *State) {
	c := fr.e.c
	type pv struct {
		phi *ssa.Phi
		v   Val
	}
	var out []pv
	for _, in := range b.Instrs {
		phi, ok := in.(*ssa.Phi)
		if !ok {
			break
		}
		var cur Val
		first := true
		for i := len(edges) - 1; i >= 0; i-- {
			ed := edges[i]
			pi := -1
			for k, p := range b.Preds {
				if p == ed.From {
					pi = k
					break
				}
			}
			if pi < 0 {
				fr.e.fail("phi: edge from non-predecessor in %s", b.Parent())
			}
			v := fr.e.value(ed.St, phi.Edges[pi])
			if first {
				cur = v
				first = false
			} else if !valEqual(v, cur) {
				cur = c.iteVal(ed.Cond, v, cur)
			}
		}
		out = append(out, pv{phi, cur})
	}
	for _, p := range out {
		st.env[p.phi] = p.v
		if p.phi.Comment != "" {
			st.names[p.phi.Comment] = p.v
		}
	}
}

func (fr *frame) addEdge(from, to *ssa.BasicBlock, cond Term, st *State) {
	if cond.S == "false" {
		return
	}
	fr.pending[to] = append(fr.pending[to], Edge{From: from, To: to, Cond: cond, St: st})
}

func (fr *frame) execBlock(b *ssa.BasicBlock, edges []Edge, in *LoopInfo) {
	e := fr.e
	reach, st := fr.mergeEdges(b, edges)
	if reach.S == "false" {
		return
	}
	for _, instr := range b.Instrs {
		switch x := instr.(type) {
		case *ssa.Phi:
			continue
		case *ssa.If:
			cond := e.value(st, x.Cond).T()
			t := e.c.and(reach, cond)
			f := e.c.and(reach, e.c.not(cond))
			fr.addEdge(b, b.Succs[0], t, st)
			fr.addEdge(b, b.Succs[1], f, st.clone())
			return
		case *ssa.Jump:
			fr.addEdge(b, b.Succs[0], reach, st)
			return
		case *ssa.Return:
			var res []Val
			for _, r := range x.Results {
				res = append(res, e.value(st, r))
			}
			fr.rets = append(fr.rets, RetEdge{Cond: reach, St: st, Res: res, Pos: x.Pos()})
			return
		case *ssa.Panic:
			e.panicInstr(fr, x, reach, st)
			return
		default:
			reach = e.step(fr, instr, reach, st)
			if reach.S == "false" {
				return
			}
		}
	}
}

func (e *Exec) panicInstr(fr *frame, x *ssa.Panic, reach Term, st *State) {
	label := "panic"
	if fr.spec != nil && fr.spec.MayPanic {
		return
	}
	if !e.safety && len(e.curFn) > 1 {
		// a unit without safety obligations (control-flow accounting): the range checks that
		// inlined accessors spell out as explicit panics are index checks like the implicit ones
		e.trusted["explicit panics inside inlined callees (range checks of accessors) are not proved unreachable in this unit"] = true
		return
	}
	e.oblige("panic", label+":"+e.fnShort(x.Parent()), reach, tFalse, x.Pos())
}

func (e *Exec) fnShort(fn *ssa.Function) string {
	return funcKey(fn)
}

// ---------------------------------------------------------------------------------------------
// loops

func (fr *frame) runLoop(li *LoopInfo) {
	e := fr.e
	c := e.c
	h := li.Header
	entry := fr.pending[h]
	delete(fr.pending, h)
	if len(entry) == 0 {
		return
	}
	var ls *LoopSpec
	if fr.spec != nil {
		ls = fr.spec.Loops[li.Ord]
	}
	topLevel := len(e.curFn) == 1
	if ls == nil && !topLevel {
		// inlined callee loop: look up that function's own contract for loop specs
		if ct := e.prog.contracts[funcKey(fr.fi.Fn)]; ct != nil {
			ls = ct.Loops[li.Ord]
		}
	}
	if ls == nil {
		if n, ok := constTripCount(li); ok {
			ls = &LoopSpec{Unroll: n + 1}
		} else {
			// no invariant given: the invariant rule with the trivial invariant (sound; everything
			// the loop modifies is arbitrary afterwards)
			ls = &LoopSpec{}
			e.trusted[fmt.Sprintf("loop %d of %s: no invariant given, loop-modified state havocked", li.Ord, fr.fi.Fn.Name())] = true
		}
	}
	if ls.Unroll > 0 {
		cur := entry
		for it := 0; it < ls.Unroll; it++ {
			if len(cur) == 0 {
				break
			}
			fr.pending[h] = nil
			// execute header with current incoming edges, then the body region
			fr.execLoopBody(li, cur)
			cur = fr.takeBackEdges(li)
		}
		// unwinding assertion
		for _, ed := range cur {
			e.oblige("unwind", fmt.Sprintf("loop%d", li.Ord), ed.Cond, tFalse, h.Instrs[0].Pos())
		}
		return
	}
	// invariant rule
	// 1. establish on entry
	for _, ed := range entry {
		stE := ed.St.clone()
		fr.evalPhis(h, []Edge{ed}, stE)
		for k, inv := range ls.Invariants {
			g := e.evalSpecBool(inv, fr.specEnv(stE), stE, fr.entryCells())
			e.oblige("invariant-init", fmt.Sprintf("loop%d.%d", li.Ord, k), ed.Cond, g, h.Instrs[0].Pos())
		}
	}
	// 2. havoc the loop-modified state
	reach, st := fr.mergeEdges(h, entry)
	mod := fr.loopWrites(li, reach, st)
	if len(e.poison) > 0 {
		// non-interference: what the loop starts from must not depend on scratch entry values
		// (the havoc below would hide such a dependence)
		var ts []Term
		var keys []string
		for k := range mod {
			keys = append(keys, k)
		}
		sort.Strings(keys)
		for _, k := range keys {
			if t, ok := st.cells[k]; ok {
				ts = append(ts, t)
			}
		}
		for _, in := range h.Instrs {
			phi, ok := in.(*ssa.Phi)
			if !ok {
				break
			}
			if v, ok := st.env[phi]; ok {
				ts = append(ts, v.L...)
			}
		}
		e.obligeRel(fmt.Sprintf("loop%d", li.Ord), reach, ts, h.Instrs[0].Pos())
	}
	hreach := c.fresh(sortBool, fmt.Sprintf("loop%d_reach", li.Ord))
	// being at the loop header (in any iteration) implies that the loop was entered: the facts
	// of the path that leads to the loop stay available inside and after it
	c.assume(c.implies(hreach, reach), "loop entered")
	hst := st.clone()
	for k := range mod {
		t, ok := st.cells[k]
		if !ok {
			t, ok = c.initial[k]
		}
		if !ok {
			continue
		}
		// heap classes (arrays over object references): when the loop body writes only objects
		// that already exist before the loop, only those objects are havocked
		if refs, precise := mod[k].refs, mod[k].precise; precise && t.Sort.K == SArray && t.Sort.Idx.K == SRef {
			cur := t
			for _, r := range refs {
				cur = c.store(cur, r, c.fresh(t.Sort.Elem, "havoc_"+cellName(k)))
			}
			hst.cells[k] = cur
			continue
		}
		hst.cells[k] = c.fresh(t.Sort, "havoc_"+cellName(k))
	}
	for _, in := range h.Instrs {
		phi, ok := in.(*ssa.Phi)
		if !ok {
			break
		}
		hst.env[phi] = c.freshVal(phi.Type(), "phi_"+phi.Name())
		if phi.Comment != "" {
			hst.names[phi.Comment] = hst.env[phi]
		}
		e.assumeTypeInv(hst.env[phi], hreach)
	}
	// values defined inside the loop must not leak from a previous unrolled instance
	for _, k := range ls.Invariants {
		g := e.evalSpecBool(k, fr.specEnv(hst), hst, fr.entryCells())
		c.assume(c.implies(hreach, g), "loop invariant")
	}
	for _, nw := range ls.NoWrap {
		v := e.evalSpecInt(nw, fr.specEnv(hst), hst, fr.entryCells())
		w := v.Sort.W
		lim := int64(1) << 62
		if w <= 62 {
			lim = int64(1) << (w - 2)
		}
		c.assume(c.implies(hreach, c.and(c.app(sortBool, "bvslt", v, bvLitI(w, lim)), c.app(sortBool, "bvsgt", v, bvLitI(w, -lim)))), "nowrap")
		e.trusted[fmt.Sprintf("machine arithmetic: counter %s in %s is assumed not to wrap around (|value| < 2^%d at the head of loop %d)", nw.Src, fr.fi.Fn.Name(), 62, li.Ord)] = true
	}
	// lemma instances and unfoldings at the loop header
	lct := fr.spec
	if lct == nil {
		lct = e.prog.contractOf(fr.fi.Fn)
	}
	for _, us := range ls.Uses {
		e.prog.useLemma(e, lct, us, fr.specEnv(hst), hreach)
	}
	for _, uf := range ls.Unfolds {
		e.prog.unfoldSpec(e, uf, fr.specEnv(hst), hreach)
	}
	// decreases: snapshot
	var decOld []Term
	for _, d := range ls.Decreases {
		decOld = append(decOld, e.evalSpecInt(d, fr.specEnv(hst), hst, fr.entryCells()))
	}
	// 3. run the body once from the havocked header
	fr.execLoopBodyFrom(li, hreach, hst)
	// 4. back edges: invariant preserved
	for _, ed := range fr.takeBackEdges(li) {
		stB := ed.St.clone()
		fr.evalPhis(h, []Edge{ed}, stB)
		for k, inv := range ls.Invariants {
			g := e.evalSpecBool(inv, fr.specEnv(stB), stB, fr.entryCells())
			e.oblige("invariant-step", fmt.Sprintf("loop%d.%d", li.Ord, k), ed.Cond, g, h.Instrs[0].Pos())
		}
		for k, d := range ls.Decreases {
			nv := e.evalSpecInt(d, fr.specEnv(stB), stB, fr.entryCells())
			w := nv.Sort.W
			g := c.and(c.app(sortBool, "bvslt", nv, decOld[k]), c.app(sortBool, "bvsge", decOld[k], bvLitI(w, 0)))
			e.oblige("decreases", fmt.Sprintf("loop%d.%d", li.Ord, k), ed.Cond, g, h.Instrs[0].Pos())
		}
	}
	_ = reach
}

// execLoopBody runs header (merging the given edges) and body region once.
func (fr *frame) execLoopBody(li *LoopInfo, in []Edge) {
	fr.execBlock(li.Header, in, li)
	fr.runRegionSkippingHeader(li)
}

func (fr *frame) execLoopBodyFrom(li *LoopInfo, reach Term, st *State) {
	// execute header instructions (after phis) from the given state
	h := li.Header
	fr.execBlockFrom(h, reach, st)
	fr.runRegionSkippingHeader(li)
}

func (fr *frame) execBlockFrom(b *ssa.BasicBlock, reach Term, st *State) {
	// like execBlock but with pre-merged state and phis already bound
	e := fr.e
	for _, instr := range b.Instrs {
		switch x := instr.(type) {
		case *ssa.Phi:
			continue
		case *ssa.If:
			cond := e.value(st, x.Cond).T()
			fr.addEdge(b, b.Succs[0], e.c.and(reach, cond), st)
			fr.addEdge(b, b.Succs[1], e.c.and(reach, e.c.not(cond)), st.clone())
			return
		case *ssa.Jump:
			fr.addEdge(b, b.Succs[0], reach, st)
			return
		case *ssa.Return:
			var res []Val
			for _, r := range x.Results {
				res = append(res, e.value(st, r))
			}
			fr.rets = append(fr.rets, RetEdge{Cond: reach, St: st, Res: res, Pos: x.Pos()})
			return
		case *ssa.Panic:
			e.panicInstr(fr, x, reach, st)
			return
		default:
			reach = e.step(fr, instr, reach, st)
			if reach.S == "false" {
				return
			}
		}
	}
}

func (fr *frame) runRegionSkippingHeader(li *LoopInfo) {
	for _, b := range fr.fi.RPO {
		if !li.Body[b] || b == li.Header {
			continue
		}
		if inner, ok := fr.fi.Loops[b]; ok {
			if inner.Parent == li {
				fr.runLoop(inner)
			}
			continue
		}
		if fr.innermost(b) != li {
			continue
		}
		edges := fr.pending[b]
		delete(fr.pending, b)
		if len(edges) == 0 {
			continue
		}
		fr.execBlock(b, edges, li)
	}
}

// takeBackEdges removes and returns pending edges into the loop header
func (fr *frame) takeBackEdges(li *LoopInfo) []Edge {
	ed := fr.pending[li.Header]
	delete(fr.pending, li.Header)
	return ed
}

// loopWrites: dry-run the loop body once to find the cells it may modify
type modInfo struct {
	refs    []Term
	precise bool
}

// writtenRefs: the object references at which `t` differs from `base` when t is built from base
// by stores and if-then-else only (ok=false otherwise)
func (c *Ctx) writtenRefs(t, base Term, limit int, depth int) ([]Term, bool) {
	if t.S == base.S {
		return nil, true
	}
	if depth > 200 {
		return nil, false
	}
	if info, ok := c.storeInfo[t.S]; ok {
		// the reference must be a term that existed before the loop body was executed
		if n := defNumber(info.idx.S); n > limit && (strings.Contains(info.idx.S, "_new_") || strings.Contains(info.idx.S, "_mk_") || strings.Contains(info.idx.S, "_grow")) {
			// an object allocated inside the loop body: it does not exist before the loop, and what
			// the loop leaves in it is reachable afterwards only through havocked pointers
			return c.writtenRefs(info.base, base, limit, depth+1)
		} else if n < 0 || n > limit {
			return nil, false
		}
		rest, ok := c.writtenRefs(info.base, base, limit, depth+1)
		if !ok {
			return nil, false
		}
		return append(rest, info.idx), true
	}
	if info, ok := c.iteInfo[t.S]; ok {
		a, ok1 := c.writtenRefs(info.a, base, limit, depth+1)
		b, ok2 := c.writtenRefs(info.b, base, limit, depth+1)
		if !ok1 || !ok2 {
			return nil, false
		}
		return append(a, b...), true
	}
	return nil, false
}

// defNumber: creation number of a defined name (v123 / k123_x); -1 for anything else except
// the nil reference (0)
func defNumber(name string) int {
	if name == "nil_ref" {
		return 0
	}
	if len(name) < 2 || (name[0] != 'v' && name[0] != 'k') {
		return -1
	}
	n := 0
	i := 1
	for ; i < len(name) && name[i] >= '0' && name[i] <= '9'; i++ {
		n = n*10 + int(name[i]-'0')
	}
	if i == 1 {
		return -1
	}
	return n
}

func (fr *frame) loopWrites(li *LoopInfo, reach Term, st *State) map[string]*modInfo {
	e := fr.e
	c := e.c
	wasDry := c.dry
	c.dry = true
	savedPending := fr.pending
	savedRets := fr.rets
	savedCnt := map[string]int{}
	for k, v := range e.kindCnt {
		savedCnt[k] = v
	}
	fr.pending = map[*ssa.BasicBlock][]Edge{}
	mod := map[string]*modInfo{}
	limit := c.n
	func() {
		defer func() {
			c.dry = wasDry
			// collect
			record := func(s *State) {
				for k, t := range s.cells {
					if t0, ok := st.cells[k]; !ok || t0.S != t.S {
						if !strings.HasPrefix(k, "l:") || ok {
							mi := mod[k]
							if mi == nil {
								mi = &modInfo{precise: true}
								mod[k] = mi
							}
							base, okb := st.cells[k]
							if !okb {
								base, okb = c.initial[k]
							}
							if !okb || !mi.precise {
								mi.precise = false
								continue
							}
							refs, okr := c.writtenRefs(t, base, limit, 0)
							if !okr {
								mi.precise = false
								continue
							}
						outer:
							for _, r := range refs {
								for _, r0 := range mi.refs {
									if r0.S == r.S {
										continue outer
									}
								}
								mi.refs = append(mi.refs, r)
							}
						}
					}
				}
			}
			for _, eds := range fr.pending {
				for _, ed := range eds {
					record(ed.St)
				}
			}
			for _, r := range fr.rets[len(savedRets):] {
				record(r.St)
			}
			fr.pending = savedPending
			fr.rets = savedRets
			e.kindCnt = savedCnt
		}()
		dst := st.clone()
		// bind phis to fresh values so that the body executes generically
		for _, in := range li.Header.Instrs {
			phi, ok := in.(*ssa.Phi)
			if !ok {
				break
			}
			dst.env[phi] = c.freshVal(phi.Type(), "dry")
			if phi.Comment != "" {
				dst.names[phi.Comment] = dst.env[phi]
			}
		}
		fr.execLoopBodyFrom(li, c.fresh(sortBool, "dry"), dst)
	}()
	return mod
}

// constTripCount recognises `for i := c0; i < / <= c1; i++` shaped loops with constants.
func constTripCount(li *LoopInfo) (int, bool) {
	h := li.Header
	var ifi *ssa.If
	for _, in := range h.Instrs {
		if x, ok := in.(*ssa.If); ok {
			ifi = x
		}
	}
	if ifi == nil {
		return 0, false
	}
	cmp, ok := ifi.Cond.(*ssa.BinOp)
	if !ok {
		return 0, false
	}
	phi, ok := cmp.X.(*ssa.Phi)
	if !ok || phi.Block() != h {
		return 0, false
	}
	lim, ok := cmp.Y.(*ssa.Const)
	if !ok || lim.Value == nil || lim.Value.Kind() != constant.Int {
		return 0, false
	}
	var start *ssa.Const
	var step int64
	for i, ed := range phi.Edges {
		if li.Body[h.Preds[i]] {
			bo, ok := ed.(*ssa.BinOp)
			if !ok || bo.Op != token.ADD || bo.X != ssa.Value(phi) {
				return 0, false
			}
			sc, ok := bo.Y.(*ssa.Const)
			if !ok || sc.Value == nil {
				return 0, false
			}
			step, _ = constant.Int64Val(sc.Value)
		} else {
			sc, ok := ed.(*ssa.Const)
			if !ok || sc.Value == nil {
				return 0, false
			}
			if start != nil && !constant.Compare(start.Value, token.EQL, sc.Value) {
				return 0, false
			}
			start = sc
		}
	}
	if start == nil || step <= 0 {
		return 0, false
	}
	s, _ := constant.Int64Val(start.Value)
	l, _ := constant.Int64Val(lim.Value)
	var n int64
	switch cmp.Op {
	case token.LSS:
		n = (l - s + step - 1) / step
	case token.LEQ:
		n = (l-s)/step + 1
	default:
		return 0, false
	}
	if n < 0 {
		n = 0
	}
	if n > 70 {
		return 0, false
	}
	return int(n), true
}

// ---------------------------------------------------------------------------------------------
// values

func (e *Exec) value(st *State, v ssa.Value) Val {
	switch x := v.(type) {
	case *ssa.Const:
		return e.constVal(x)
	case *ssa.Global:
		pt := x.Type().(*types.Pointer).Elem()
		return Val{Typ: x.Type(), L: []Term{Term{"nil_ref", sortRef}}, Addr: &Addr{Kind: RGlobal, Key: "g:" + globalKey(x), Typ: pt}}
	case *ssa.Function:
		return Val{Typ: x.Type(), L: []Term{e.c.named(sortOpaque, "k0_fn_"+sanitize(x.String()))}, Fn: x}
	case *ssa.Builtin:
		e.fail("builtin %s used as value", x.Name())
	}
	if val, ok := st.env[v]; ok {
		return val
	}
	if fv, ok := v.(*ssa.FreeVar); ok {
		e.fail("free variable %s (closure) not supported", fv.Name())
	}
	e.fail("value %s (%T) of %s not bound", v.Name(), v, v.Parent())
	return Val{}
}

func globalKey(g *ssa.Global) string {
	return shortPkg(g.Pkg.Pkg.Path()) + "." + g.Name()
}

func shortPkg(p string) string {
	return strings.TrimPrefix(p, "github.com/frankkopp/FrankyGo/internal/")
}

func (e *Exec) constVal(x *ssa.Const) Val {
	c := e.c
	t := x.Type()
	if x.Value == nil {
		// zero value / nil
		if b, ok := t.Underlying().(*types.Basic); ok && b.Kind() == types.UntypedNil {
			return scalar(t, tNil)
		}
		return c.zeroVal(t)
	}
	switch x.Value.Kind() {
	case constant.Bool:
		if constant.BoolVal(x.Value) {
			return scalar(t, tTrue)
		}
		return scalar(t, tFalse)
	case constant.Int:
		if isInteger(t) {
			bi, _ := new(big.Int).SetString(x.Value.ExactString(), 10)
			return scalar(t, bvLit(scalarSort(t).W, bi))
		}
		if scalarSort(t) == sortFloat {
			f, _ := constant.Float64Val(x.Value)
			return scalar(t, floatLit(f))
		}
	case constant.Float:
		f, _ := constant.Float64Val(x.Value)
		if isInteger(t) {
			return scalar(t, bvLitI(scalarSort(t).W, int64(f)))
		}
		return scalar(t, floatLit(f))
	case constant.String:
		return scalar(t, c.strLit(constant.StringVal(x.Value)))
	}
	e.fail("constant %s of type %s", x.Value, t)
	return Val{}
}

func floatLit(f float64) Term {
	// exact: via the IEEE bit pattern
	bits := fmt.Sprintf("%064b", mathFloat64bits(f))
	return Term{fmt.Sprintf("(fp #b%s #b%s #b%s)", bits[0:1], bits[1:12], bits[12:]), sortFloat}
}

// addrOfPtr turns a pointer value into a structural address
func (e *Exec) addrOfPtr(v Val) *Addr {
	if v.Addr != nil {
		if v.Addr.Kind < 0 {
			e.fail("pointer with merged structural addresses")
		}
		return v.Addr
	}
	pt, ok := v.Typ.Underlying().(*types.Pointer)
	if !ok {
		e.fail("addrOfPtr on non-pointer %s", v.Typ)
	}
	return &Addr{Kind: RHeap, Ref: v.T(), Key: typeKey(pt.Elem()), Typ: pt.Elem()}
}

// refOfPtr materialises a pointer as a Ref term (only whole heap objects have one)
func (e *Exec) refOfPtr(v Val) Term {
	if v.Addr == nil {
		return v.T()
	}
	if v.Addr.Kind == RHeap && len(v.Addr.Path) == 0 {
		return v.Addr.Ref
	}
	e.fail("interior/local/global pointer needs a Ref (escapes to memory or a contract call)")
	return Term{}
}

func (e *Exec) assumeTypeInv(v Val, reach Term) {
	// nothing for now: Go types carry no range invariants beyond their width
}
