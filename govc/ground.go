package main

// Ground facts: package-level tables written once by init functions (no input => exactly one
// execution); dumped from the freshly built packages on every run and checked exhaustively.

func (p *Program) groundObligations(verif, prop, tier string) []*Oblig {
	return nil
}
