package main

// Ground facts: package-level tables written once by init functions (no input => exactly one
// execution, so running the initialiser *is* its complete symbolic execution).  On every run
// an in-package test injected with `go test -overlay` dumps the tables named by `ground`
// directives from the freshly built package; the values become constant tables of the VCs.
// A `frozen` obligation checks that no function outside package initialisation writes them.

import (
	"go/token"
	"regexp"
	"encoding/json"
	"fmt"
	"go/types"
	"math/big"
	"os"
	"os/exec"
	"path/filepath"
	"sort"
	"strings"

	"golang.org/x/tools/go/ssa"
)

type Table struct {
	Sort *Sort
	Data interface{} // nested []interface{} of strings (decimal) / bools
}

func (p *Program) dumpGround(verif string) error {
	p.ground = &GroundData{Vals: map[string]interface{}{}}
	byPkg := map[string][]string{}
	for g := range p.cs.Grounds {
		i := strings.Index(g, ".")
		byPkg[g[:i]] = append(byPkg[g[:i]], g[i+1:])
	}
	if len(byPkg) == 0 {
		return nil
	}
	work := filepath.Join(os.TempDir(), "govc-work", fmt.Sprintf("ground-%d", os.Getpid()))
	os.MkdirAll(work, 0o755)
	defer os.RemoveAll(work)
	var pkgs []string
	for k := range byPkg {
		pkgs = append(pkgs, k)
	}
	sort.Strings(pkgs)
	type res struct {
		pkg string
		err error
		out map[string]interface{}
	}
	ch := make(chan res, len(pkgs))
	for _, pkg := range pkgs {
		pkg := pkg
		go func() {
			names := byPkg[pkg]
			sort.Strings(names)
			tp := p.pkgByName(pkg)
			if tp == nil {
				ch <- res{pkg, fmt.Errorf("ground: unknown package %s", pkg), nil}
				return
			}
			var b strings.Builder
			fmt.Fprintf(&b, "package %s\n\nimport (\n\t\"encoding/json\"\n\t\"os\"\n\t\"reflect\"\n\t\"strconv\"\n\t\"testing\"\n)\n\n", tp.Name())
			b.WriteString("func TestGovcGroundDump(t *testing.T) {\n\tout := map[string]interface{}{}\n")
			for _, n := range names {
				if tp.Scope().Lookup(n) == nil {
					ch <- res{pkg, fmt.Errorf("ground: %s.%s does not exist", pkg, n), nil}
					return
				}
				fmt.Fprintf(&b, "\tout[%q] = govcDump(reflect.ValueOf(&%s).Elem())\n", n, n)
			}
			b.WriteString("\tdata, _ := json.Marshal(out)\n\tif err := os.WriteFile(os.Getenv(\"GOVC_DUMP_OUT\"), data, 0o644); err != nil {\n\t\tt.Fatal(err)\n\t}\n}\n\n")
			b.WriteString(`func govcDump(v reflect.Value) interface{} {
	switch v.Kind() {
	case reflect.Array, reflect.Slice:
		out := make([]interface{}, v.Len())
		for i := 0; i < v.Len(); i++ {
			out[i] = govcDump(v.Index(i))
		}
		return out
	case reflect.Struct:
		out := map[string]interface{}{}
		for i := 0; i < v.NumField(); i++ {
			out[v.Type().Field(i).Name] = govcDump(v.Field(i))
		}
		return out
	case reflect.Int, reflect.Int8, reflect.Int16, reflect.Int32, reflect.Int64:
		return strconv.FormatInt(v.Int(), 10)
	case reflect.Uint, reflect.Uint8, reflect.Uint16, reflect.Uint32, reflect.Uint64, reflect.Uintptr:
		return strconv.FormatUint(v.Uint(), 10)
	case reflect.Bool:
		return v.Bool()
	case reflect.String:
		return "s:" + v.String()
	case reflect.Ptr:
		if v.IsNil() {
			return nil
		}
		return govcDump(v.Elem())
	}
	return nil
}
`)
			dir := filepath.Join(p.root, "internal", pkg)
			tf := filepath.Join(work, "dump_"+pkg+"_test.go")
			os.WriteFile(tf, []byte(b.String()), 0o644)
			ov := map[string]interface{}{"Replace": map[string]string{filepath.Join(dir, "zz_govc_dump_test.go"): tf}}
			ovData, _ := json.Marshal(ov)
			ovf := filepath.Join(work, "ov_"+pkg+".json")
			os.WriteFile(ovf, ovData, 0o644)
			outf := filepath.Join(work, "dump_"+pkg+".json")
			cmd := exec.Command("go", "test", "-mod=mod", "-overlay", ovf, "-vet=off", "-count=1", "-timeout", "120s", "-run", "^TestGovcGroundDump$", ".")
			cmd.Dir = dir
			cmd.Env = append(os.Environ(), "GOFLAGS=-mod=mod", "GOPROXY=off", "GOSUMDB=off", "GOTOOLCHAIN=local", "GOVC_DUMP_OUT="+outf)
			outb, err := cmd.CombinedOutput()
			if err != nil {
				ch <- res{pkg, fmt.Errorf("ground dump of %s failed: %v\n%s", pkg, err, truncate(string(outb), 2000)), nil}
				return
			}
			data, err := os.ReadFile(outf)
			if err != nil {
				ch <- res{pkg, err, nil}
				return
			}
			var m map[string]interface{}
			if err := json.Unmarshal(data, &m); err != nil {
				ch <- res{pkg, err, nil}
				return
			}
			ch <- res{pkg, nil, m}
		}()
	}
	var firstErr error
	for range pkgs {
		r := <-ch
		if r.err != nil {
			if firstErr == nil {
				firstErr = r.err
			}
			continue
		}
		for k, v := range r.out {
			p.ground.Vals[r.pkg+"."+k] = v
		}
	}
	return firstErr
}

// groundLeaf returns the dumped data of one leaf cell ("g:pkg.name.path") as nested lists
func (p *Program) groundLeaf(key string) (interface{}, bool) {
	if p.ground == nil || !strings.HasPrefix(key, "g:") {
		return nil, false
	}
	k := key[2:]
	// find the global: longest prefix "pkg.name"
	parts := strings.SplitN(k, ".", 3)
	if len(parts) < 2 {
		return nil, false
	}
	gname := parts[0] + "." + parts[1]
	data, ok := p.ground.Vals[gname]
	if !ok {
		return nil, false
	}
	tp := p.pkgByName(parts[0])
	if tp == nil {
		return nil, false
	}
	obj := tp.Scope().Lookup(parts[1])
	if obj == nil {
		return nil, false
	}
	leaf := ""
	if len(parts) == 3 {
		leaf = "." + parts[2]
	}
	m := buildLeaves(obj.Type(), data)
	d, ok := m[leaf]
	return d, ok
}

// buildLeaves transposes dumped data into per-leaf nested arrays (struct-of-arrays)
func buildLeaves(t types.Type, d interface{}) map[string]interface{} {
	out := map[string]interface{}{}
	switch u := t.Underlying().(type) {
	case *types.Struct:
		dm, _ := d.(map[string]interface{})
		for i := 0; i < u.NumFields(); i++ {
			f := u.Field(i)
			for lp, v := range buildLeaves(f.Type(), dm[f.Name()]) {
				out["."+f.Name()+lp] = v
			}
		}
	case *types.Array:
		dl, _ := d.([]interface{})
		var parts []map[string]interface{}
		for i := 0; i < int(u.Len()) && i < len(dl); i++ {
			parts = append(parts, buildLeaves(u.Elem(), dl[i]))
		}
		if len(parts) > 0 {
			for lp := range parts[0] {
				arr := make([]interface{}, len(parts))
				for i := range parts {
					arr[i] = parts[i][lp]
				}
				out[lp] = arr
			}
		}
	case *types.Slice, *types.Pointer, *types.Map, *types.Interface, *types.Signature, *types.Chan:
		// not representable as a ground table
	default:
		out[""] = d
	}
	return out
}

// tableBody renders nested data as an SMT array term
func (c *Ctx) tableBody(s *Sort, d interface{}) string {
	switch s.K {
	case SBV:
		str, _ := d.(string)
		v, ok := new(big.Int).SetString(str, 10)
		if !ok {
			panic(unsupported{"ground table entry is not an integer: " + fmt.Sprint(d)})
		}
		return bvLit(s.W, v).S
	case SBool:
		if b, _ := d.(bool); b {
			return "true"
		}
		return "false"
	case SStr:
		str, _ := d.(string)
		return c.strLit(strings.TrimPrefix(str, "s:")).S
	case SArray:
		dl, _ := d.([]interface{})
		// default element = most frequent rendering, to keep the term small
		rendered := make([]string, len(dl))
		freq := map[string]int{}
		for i, x := range dl {
			rendered[i] = c.tableBody(s.Elem, x)
			freq[rendered[i]]++
		}
		def, best := "", -1
		for k, n := range freq {
			if n > best || n == best && k < def {
				def, best = k, n
			}
		}
		if def == "" {
			def = c.zero(s.Elem).S
		}
		cur := fmt.Sprintf("((as const %s) %s)", s, def)
		for i, r := range rendered {
			if r != def {
				cur = fmt.Sprintf("(store %s %s %s)", cur, bvLitI(64, int64(i)).S, r)
			}
		}
		return cur
	}
	panic(unsupported{"ground table of sort " + s.String()})
}

// selTable folds a select with a literal index on a registered constant table
func (c *Ctx) selTable(a Term, i Term) (Term, bool) {
	tb, ok := c.tables[a.S]
	if !ok {
		return Term{}, false
	}
	iv, ok := litValue(i)
	if !ok {
		// symbolic index into a small one-dimensional table: an if-then-else chain over the
		// entries (exact; keeps the entries visible as constants to the bit-vector reasoning)
		dl, _ := tb.Data.([]interface{})
		if tb.Sort.Elem.K != SArray && len(dl) > 0 && len(dl) <= 16 {
			// out-of-range reads are arbitrary (the code cannot perform them: bounds obligations)
			oob := "oob_" + strings.NewReplacer(".", "_").Replace(a.S)
			c.declareFun(oob, []string{i.Sort.String()}, tb.Sort.Elem)
			cur := c.app(tb.Sort.Elem, oob, i)
			for k := len(dl) - 1; k >= 0; k-- {
				cur = c.ite(c.eq(i, bvLitI(i.Sort.W, int64(k))), Term{c.tableBody(tb.Sort.Elem, dl[k]), tb.Sort.Elem}, cur)
			}
			return cur, true
		}
		return Term{}, false
	}
	dl, _ := tb.Data.([]interface{})
	if !iv.IsInt64() || iv.Int64() < 0 || iv.Int64() >= int64(len(dl)) {
		return Term{}, false
	}
	el := dl[iv.Int64()]
	es := tb.Sort.Elem
	if es.K == SArray {
		name := fmt.Sprintf("%s_%d", a.S, iv.Int64())
		return c.registerTable(name, es, el), true
	}
	return Term{c.tableBody(es, el), es}, true
}

func (c *Ctx) registerTable(name string, s *Sort, data interface{}) Term {
	if _, ok := c.tables[name]; ok {
		return Term{name, s}
	}
	c.tables[name] = &Table{Sort: s, Data: data}
	d := &Def{Name: name, Sort: s, Body: c.tableBody(s, data)}
	c.defs = append(c.defs, d)
	c.defIdx[name] = d
	return Term{name, s}
}

// ---------------------------------------------------------------------------------------------
// frozen globals: only package initialisation may write a ground table

func (p *Program) frozenViolations() map[string][]string {
	// init-only functions: fixpoint over static callers
	callers := map[*ssa.Function]map[*ssa.Function]bool{}
	addrTaken := map[*ssa.Function]bool{}
	var fns []*ssa.Function
	for _, fn := range p.funcs {
		fns = append(fns, fn)
	}
	for _, fn := range fns {
		for _, b := range fn.Blocks {
			for _, in := range b.Instrs {
				if call, ok := in.(ssa.CallInstruction); ok {
					if cal := call.Common().StaticCallee(); cal != nil {
						if callers[cal] == nil {
							callers[cal] = map[*ssa.Function]bool{}
						}
						callers[cal][fn] = true
					}
				}
				if _, isDbg := in.(*ssa.DebugRef); isDbg {
					continue
				}
				for _, op := range in.Operands(nil) {
					if f, ok := (*op).(*ssa.Function); ok {
						if call, isCall := in.(ssa.CallInstruction); !isCall || call.Common().Value != *op {
							addrTaken[f] = true
						}
					}
				}
			}
		}
	}
	isInit := func(fn *ssa.Function) bool {
		return fn.Name() == "init" || strings.HasPrefix(fn.Name(), "init#")
	}
	initOnly := map[*ssa.Function]bool{}
	changed := true
	for changed {
		changed = false
		for _, fn := range fns {
			if initOnly[fn] {
				continue
			}
			if isInit(fn) {
				initOnly[fn] = true
				changed = true
				continue
			}
			if addrTaken[fn] || len(callers[fn]) == 0 || fn.Object() != nil && fn.Object().Exported() {
				continue
			}
			all := true
			for cl := range callers[fn] {
				if !initOnly[cl] {
					all = false
				}
			}
			if all {
				initOnly[fn] = true
				changed = true
			}
		}
	}
	out := map[string][]string{}
	for g := range p.cs.Frozen {
		out[g] = nil
	}
	var rootGlobal func(v ssa.Value, depth int) *ssa.Global
	rootGlobal = func(v ssa.Value, depth int) *ssa.Global {
		if depth > 20 {
			return nil
		}
		switch x := v.(type) {
		case *ssa.Global:
			return x
		case *ssa.FieldAddr:
			return rootGlobal(x.X, depth+1)
		case *ssa.IndexAddr:
			return rootGlobal(x.X, depth+1)
		case *ssa.UnOp:
			// an address inside a slice (or behind a pointer) that is stored in the table
			// (only slices: the elements behind a slice header kept in the table are table
			// content; the object behind a pointer kept in a global - e.g. a *regexp.Regexp - is
			// not)
			if _, isSlice := x.Type().Underlying().(*types.Slice); isSlice && x.Op == token.MUL {
				return rootGlobal(x.X, depth+1)
			}
		case *ssa.Slice:
			return rootGlobal(x.X, depth+1)
		}
		return nil
	}
	for _, fn := range fns {
		if initOnly[fn] {
			continue
		}
		for _, b := range fn.Blocks {
			for _, in := range b.Instrs {
				check := func(v ssa.Value, what string) {
					if g := rootGlobal(v, 0); g != nil && g.Pkg != nil {
						key := globalKey(g)
						if _, ok := out[key]; ok {
							out[key] = append(out[key], fmt.Sprintf("%s %s at %s", fullKey(fn), what, p.fset.Position(in.Pos())))
						}
					}
				}
				switch x := in.(type) {
				case *ssa.Store:
					check(x.Addr, "writes")
					check(x.Val, "stores the address of")
				case ssa.CallInstruction:
					for _, a := range x.Common().Args {
						// passing an address into the table to a callee that is not inlined-pure
						if _, isPtr := a.Type().Underlying().(*types.Pointer); isPtr {
							if cal := x.Common().StaticCallee(); cal != nil && writesThroughParam(cal, x.Common().Args, a) {
								check(a, "passes to a writer the address of")
							}
						}
					}
				}
			}
		}
	}
	return out
}

// writesThroughParam: does callee store through the parameter bound to arg (shallow check)?
func writesThroughParam(cal *ssa.Function, args []ssa.Value, arg ssa.Value) bool {
	if len(cal.Blocks) == 0 {
		return false // library function taking a pointer: (fmt etc.) assumed not to write tables
	}
	var prm *ssa.Parameter
	for i, a := range args {
		if a == arg && i < len(cal.Params) {
			prm = cal.Params[i]
		}
	}
	if prm == nil {
		return true
	}
	var derived func(v ssa.Value, d int) bool
	derived = func(v ssa.Value, d int) bool {
		if d > 20 {
			return false
		}
		switch x := v.(type) {
		case *ssa.Parameter:
			return x == prm
		case *ssa.FieldAddr:
			return derived(x.X, d+1)
		case *ssa.IndexAddr:
			return derived(x.X, d+1)
		}
		return false
	}
	for _, b := range cal.Blocks {
		for _, in := range b.Instrs {
			switch x := in.(type) {
			case *ssa.Store:
				if derived(x.Addr, 0) {
					return true
				}
			case ssa.CallInstruction:
				for _, a := range x.Common().Args {
					if derived(a, 0) {
						if c2 := x.Common().StaticCallee(); c2 == nil || c2 == cal || writesThroughParam(c2, x.Common().Args, a) {
							return true
						}
					}
				}
			}
		}
	}
	return false
}

// writersObligations: for every `writers` clause of the property, scan the SSA of the whole
// repository: a Store through (an address derived from) the field, or any other use of the
// field's address than loading from it, is allowed only in the listed functions.
func (p *Program) writersObligations(prop string) []*Oblig {
	var out []*Oblig
	for _, ws := range p.cs.Writers {
		has := false
		for _, pr := range ws.Props {
			if pr == prop {
				has = true
			}
		}
		if !has {
			continue
		}
		allowed := map[string]bool{}
		for _, f := range ws.Funcs {
			if regexp.MustCompile(`^[a-z]\w*\.[A-Za-z(]`).MatchString(f) {
				allowed[f] = true // qualified with another package
			} else {
				allowed[ws.Pkg+"."+f] = true
			}
		}
		name := fmt.Sprintf("%s.%s.%s#writers", ws.Pkg, ws.Type, ws.Field)
		if ws.Readers {
			name = fmt.Sprintf("%s.%s.%s#readers", ws.Pkg, ws.Type, ws.Field)
		}
		o := &Oblig{Name: name, Kind: "writers", Status: "unsat", Solver: "ssa-scan", Props: []string{prop}, Pos: ws.Line}
		found := false
		var bad []string
		type wstore struct {
			fn  *ssa.Function
			key string
			st  *ssa.Store
		}
		var wholeStores []wstore
		var fieldType, fieldTypeOf types.Type
		_ = fieldType
		var fns []*ssa.Function
		for _, fn := range p.funcs {
			fns = append(fns, fn)
		}
		sort.Slice(fns, func(i, j int) bool { return fullKey(fns[i]) < fullKey(fns[j]) })
		isField := func(v ssa.Value) bool {
			fa, ok := v.(*ssa.FieldAddr)
			if !ok {
				return false
			}
			pt, ok := fa.X.Type().Underlying().(*types.Pointer)
			if !ok {
				return false
			}
			nt, ok := pt.Elem().(*types.Named)
			if !ok || nt.Obj().Name() != ws.Type || nt.Obj().Pkg() == nil || shortPkg(nt.Obj().Pkg().Path()) != ws.Pkg {
				return false
			}
			st, ok := nt.Underlying().(*types.Struct)
			return ok && fa.Field < st.NumFields() && st.Field(fa.Field).Name() == ws.Field
		}
		var derived func(v ssa.Value, d int) bool
		derived = func(v ssa.Value, d int) bool {
			if d > 20 {
				return false
			}
			if isField(v) {
				return true
			}
			switch x := v.(type) {
			case *ssa.FieldAddr:
				return derived(x.X, d+1)
			case *ssa.IndexAddr:
				return derived(x.X, d+1)
			}
			return false
		}
		for _, fn := range fns {
			key := fullKey(fn)
			// closures are attributed to their enclosing function
			for pf := fn; pf != nil; pf = pf.Parent() {
				key = fullKey(pf)
			}
			for _, b := range fn.Blocks {
				for _, in := range b.Instrs {
					if v, ok := in.(ssa.Value); ok && isField(v) {
						found = true
						if pt, ok := v.Type().Underlying().(*types.Pointer); ok {
							fieldTypeOf = pt.Elem()
						}
					}
					viol := ""
					switch x := in.(type) {
					case *ssa.UnOp:
						if ws.Readers && x.Op == token.MUL && isField(x.X) {
							viol = "reads"
						}
					case *ssa.Store:
						if ws.Readers {
							break
						}
						if ws.Whole {
							// the field is replaced as a whole: directly, or through any pointer to
							// a value of the field's (named struct) type
							if isField(x.Addr) {
								viol = "replaces"
								fieldType = x.Val.Type()
							}
							wholeStores = append(wholeStores, wstore{fn, key, x})
							break
						}
						if derived(x.Addr, 0) {
							viol = "writes"
						} else if derived(x.Val, 0) {
							viol = "stores the address of"
						}
					case *ssa.FieldAddr, *ssa.IndexAddr, *ssa.DebugRef:
					default:
						if ws.Whole || ws.Readers {
							break
						}
						for _, op := range in.Operands(nil) {
							if *op != nil && derived(*op, 0) {
								viol = "lets escape the address of"
							}
						}
					}
					if viol != "" && !allowed[key] && !(fn.Name() == "init" || strings.HasPrefix(fn.Name(), "init#")) {
						bad = append(bad, fmt.Sprintf("%s %s %s.%s at %s", fullKey(fn), viol, ws.Type, ws.Field, p.fset.Position(in.Pos())))
					}
				}
			}
		}
		if ws.Whole && fieldTypeOf != nil {
			for _, w := range wholeStores {
				if isField(w.st.Addr) {
					continue
				}
				if pt, ok := w.st.Addr.Type().Underlying().(*types.Pointer); ok && types.Identical(pt.Elem(), fieldTypeOf) {
					if _, isStruct := fieldTypeOf.Underlying().(*types.Struct); isStruct && !allowed[w.key] && !(w.fn.Name() == "init" || strings.HasPrefix(w.fn.Name(), "init#")) {
						bad = append(bad, fmt.Sprintf("%s replaces a whole %s through a pointer at %s", fullKey(w.fn), fieldTypeOf, p.fset.Position(w.st.Pos())))
					}
				}
			}
		}
		if !found {
			o.Status = "sat"
			o.Output = fmt.Sprintf("no access to %s.%s found at all: the writers clause lost its target", ws.Type, ws.Field)
		} else if len(bad) > 0 {
			o.Status = "sat"
			o.Output = "field written outside its declared writers: " + strings.Join(bad, "; ")
			if ws.Readers {
				o.Output = "field read outside its declared readers: " + strings.Join(bad, "; ")
			}
		}
		for _, f := range ws.Funcs {
			fk := ws.Pkg + "." + f
			if regexp.MustCompile(`^[a-z]\w*\.[A-Za-z(]`).MatchString(f) {
				fk = f
			}
			if p.funcs[fk] == nil {
				o.Status = "sat"
				o.Output += fmt.Sprintf(" declared writer %s does not exist;", f)
			}
		}
		out = append(out, o)
	}
	return out
}

func (p *Program) groundObligations(verif, prop, tier string) []*Oblig {
	var out []*Oblig
	if p.groundErr != nil {
		out = append(out, &Oblig{Name: "ground#dump", Kind: "ground", Status: "error", Output: p.groundErr.Error()})
	}
	// frozen checks for the ground tables used by units of this property
	fv := p.frozenViolations()
	var names []string
	for g := range p.usedGround {
		names = append(names, g)
	}
	for g, prs := range p.cs.FrozenProps {
		for _, pr := range prs {
			if pr == prop && !p.usedGround[g] {
				names = append(names, g)
			}
		}
	}
	sort.Strings(names)
	for _, g := range names {
		o := &Oblig{Name: "ground#frozen:" + g, Kind: "frozen", Status: "unsat", Solver: "ssa-scan", Props: []string{prop}}
		if v := fv[g]; len(v) > 0 {
			o.Status = "sat"
			o.Output = "table is written outside package initialisation: " + strings.Join(v, "; ")
		}
		out = append(out, o)
	}
	return out
}

// columnTable: for a constant table T of sort idx->(idx->X), the 1-D table  x -> T[x][col]
func (c *Ctx) columnTable(t Term, tb *Table, col int) (Term, bool) {
	if tb.Sort.Elem.K != SArray {
		return Term{}, false
	}
	rows, _ := tb.Data.([]interface{})
	out := make([]interface{}, len(rows))
	for i, r := range rows {
		rl, _ := r.([]interface{})
		if col < 0 || col >= len(rl) {
			return Term{}, false
		}
		out[i] = rl[col]
	}
	s := arraySort(tb.Sort.Idx, tb.Sort.Elem.Elem)
	return c.registerTable(fmt.Sprintf("%s_col%d", t.S, col), s, out), true
}
