package main

// Values, addresses and the memory model (Burstall-Bornat per-leaf heaps, struct-of-arrays
// flattening of aggregates).

import (
	"fmt"
	"go/types"
	"math/big"
	"strings"
	"sync"

	"golang.org/x/tools/go/ssa"
)

// Leaf describes one scalar component of a Go type after flattening.
type Leaf struct {
	Path string      // ".f.g" field path ("" for a scalar type); slice parts end in #ref/#off/#len/#cap
	Dims []int64     // array dimensions above the scalar, outermost first
	Elem types.Type  // the scalar Go type (nil for the synthetic slice parts)
	Base *Sort       // sort of the scalar
	Sort *Sort       // sort including array dimensions
	SlEl types.Type  // for #ref leaves: element type of the slice
}

var leafCache = map[string][]Leaf{}

func typeKey(t types.Type) string { return types.TypeString(t, nil) }

func scalarSort(t types.Type) *Sort {
	switch u := t.Underlying().(type) {
	case *types.Basic:
		switch {
		case u.Info()&types.IsBoolean != 0:
			return sortBool
		case u.Info()&types.IsInteger != 0:
			return bvSort(intWidth(u))
		case u.Info()&types.IsFloat != 0:
			return sortFloat
		case u.Info()&types.IsString != 0:
			return sortStr
		case u.Kind() == types.UnsafePointer:
			return sortRef
		case u.Kind() == types.UntypedNil:
			return sortRef
		}
	case *types.Pointer:
		return sortRef
	case *types.Interface:
		return sortIface
	case *types.Signature, *types.Map, *types.Chan:
		return sortOpaque
	}
	return nil
}

func intWidth(b *types.Basic) int {
	switch b.Kind() {
	case types.Int8, types.Uint8:
		return 8
	case types.Int16, types.Uint16:
		return 16
	case types.Int32, types.Uint32, types.UntypedRune:
		return 32
	default:
		return 64
	}
}

func isSigned(t types.Type) bool {
	if b, ok := t.Underlying().(*types.Basic); ok {
		return b.Info()&types.IsInteger != 0 && b.Info()&types.IsUnsigned == 0
	}
	return false
}

func isInteger(t types.Type) bool {
	if b, ok := t.Underlying().(*types.Basic); ok {
		return b.Info()&types.IsInteger != 0
	}
	return false
}

var leafMu sync.Mutex

func leavesOf(t types.Type) []Leaf {
	k := typeKey(t)
	leafMu.Lock()
	if l, ok := leafCache[k]; ok {
		leafMu.Unlock()
		return l
	}
	leafMu.Unlock()
	var out []Leaf
	switch u := t.Underlying().(type) {
	case *types.Struct:
		for i := 0; i < u.NumFields(); i++ {
			f := u.Field(i)
			for _, l := range leavesOf(f.Type()) {
				l.Path = "." + f.Name() + l.Path
				out = append(out, l)
			}
		}
	case *types.Array:
		for _, l := range leavesOf(u.Elem()) {
			l.Dims = append([]int64{u.Len()}, l.Dims...)
			l.Sort = arraySort(bvSort(64), l.Sort)
			out = append(out, l)
		}
	case *types.Slice:
		out = append(out,
			Leaf{Path: "#ref", Base: sortRef, Sort: sortRef, SlEl: u.Elem()},
			Leaf{Path: "#off", Base: bvSort(64), Sort: bvSort(64)},
			Leaf{Path: "#len", Base: bvSort(64), Sort: bvSort(64)},
			Leaf{Path: "#cap", Base: bvSort(64), Sort: bvSort(64)})
	case *types.Tuple:
		for i := 0; i < u.Len(); i++ {
			for _, l := range leavesOf(u.At(i).Type()) {
				l.Path = fmt.Sprintf(".%d", i) + l.Path
				out = append(out, l)
			}
		}
	default:
		s := scalarSort(t)
		if s == nil {
			panic(fmt.Sprintf("unsupported type %s", t))
		}
		out = []Leaf{{Path: "", Elem: t, Base: s, Sort: s}}
	}
	leafMu.Lock()
	leafCache[k] = out
	leafMu.Unlock()
	return out
}

// Root of an address.
type RootKind int

const (
	RHeap   RootKind = iota // object behind a Ref; cells are arrays indexed by Ref
	RGlobal                 // package-level variable
	RLocal                  // non-escaping local allocation
)

type Step struct {
	Field int   // >=0: struct field index
	Idx   Term  // else array index (64-bit)
	Len   int64 // array length for index steps
}

// Addr is a structural address: root object plus access path.
type Addr struct {
	Kind RootKind
	Ref  Term       // RHeap
	Key  string     // cell-key prefix: type name (heap), global name, or local id
	Typ  types.Type // type of the root object
	Path []Step
}

func (a *Addr) extend(s Step) *Addr {
	n := *a
	n.Path = append(append([]Step{}, a.Path...), s)
	return &n
}

// Val is a symbolic Go value: leaf terms in leavesOf(Typ) order.
type Val struct {
	Typ   types.Type
	K     *big.Int // untyped integer constant (spec expressions only)
	L     []Term
	Addr  *Addr // for pointer values with a structural address
	Nil   Term  // for structural pointers: condition under which the pointer is nil ("" = never)
	Tuple []Val // multi-value results
	Fn    *ssa.Function
	Deref bool // (source-level names only) the name denotes the variable stored at this address
	Global string // for a value loaded from a package-level variable: its key ("g:pkg.name")
	Boxed *Val // value inside an interface / ranged-over value of an iterator
}

func scalar(t types.Type, term Term) Val { return Val{Typ: t, L: []Term{term}} }

func (v Val) T() Term {
	if len(v.L) != 1 {
		panic(fmt.Sprintf("value of type %s is not scalar (%d leaves)", v.Typ, len(v.L)))
	}
	return v.L[0]
}

// State: memory cells.  Keys: "<TypeName><leafpath>" for heap classes (sort Array Ref X),
// "g:<pkg>.<name><leafpath>" for globals, "l:<id><leafpath>" for locals.
type State struct {
	cells map[string]Term
	env   map[ssa.Value]Val
	names map[string]Val // source-level variable name -> current value (from DebugRef / phi comments)
}

func newState() *State {
	return &State{cells: map[string]Term{}, env: map[ssa.Value]Val{}, names: map[string]Val{}}
}

func (s *State) clone() *State {
	n := &State{cells: make(map[string]Term, len(s.cells)), env: make(map[ssa.Value]Val, len(s.env)), names: make(map[string]Val, len(s.names))}
	for k, v := range s.cells {
		n.cells[k] = v
	}
	for k, v := range s.env {
		n.env[k] = v
	}
	for k, v := range s.names {
		n.names[k] = v
	}
	return n
}

func (s *State) cloneCells() map[string]Term {
	n := make(map[string]Term, len(s.cells))
	for k, v := range s.cells {
		n[k] = v
	}
	return n
}

func cellName(key string) string {
	return sanitize(strings.NewReplacer("github.com/frankkopp/FrankyGo/internal/", "", "*", "P", "[]", "S", "#", ".").Replace(key))
}

// cell returns the current term of a memory cell (lazily the initial value)
func (c *Ctx) cell(st map[string]Term, key string, sort *Sort) Term {
	if t, ok := st[key]; ok {
		return t
	}
	return c.initialCell(key, sort)
}

func (c *Ctx) initialCell(key string, sort *Sort) Term {
	if t, ok := c.initial[key]; ok {
		return t
	}
	pre := "h_"
	if strings.HasPrefix(key, "g:") {
		pre = "g_"
		if c.groundFn != nil {
			if data, ok := c.groundFn(key); ok {
				t := c.registerTable(pre+cellName(strings.TrimPrefix(key, "g:")), sort, data)
				c.initial[key] = t
				return t
			}
		}
	}
	t := c.named(sort, pre+cellName(strings.TrimPrefix(key, "g:")))
	c.initial[key] = t
	return t
}

// typeAt walks a path from the root type
func typeAt(t types.Type, path []Step) types.Type {
	for _, s := range path {
		switch u := t.Underlying().(type) {
		case *types.Struct:
			t = u.Field(s.Field).Type()
		case *types.Array:
			t = u.Elem()
		default:
			panic(fmt.Sprintf("typeAt: %s has no component", t))
		}
	}
	return t
}

// pathKey: field part of the path and the list of index terms
func pathKey(t types.Type, path []Step) (string, []Term) {
	var sb strings.Builder
	var idx []Term
	for _, s := range path {
		switch u := t.Underlying().(type) {
		case *types.Struct:
			sb.WriteString("." + u.Field(s.Field).Name())
			t = u.Field(s.Field).Type()
		case *types.Array:
			idx = append(idx, s.Idx)
			t = u.Elem()
		}
	}
	return sb.String(), idx
}

func cellSort(a *Addr, leafSort *Sort) *Sort {
	if a.Kind == RHeap {
		return arraySort(sortRef, leafSort)
	}
	return leafSort
}

// fullLeafSort computes the sort of the cell that holds leaf `l` of the component at `path`:
// array dims crossed by the path are added on top of the leaf's own sort.
func wrapDims(n int, s *Sort) *Sort {
	for i := 0; i < n; i++ {
		s = arraySort(bvSort(64), s)
	}
	return s
}

// load reads the value of type typeAt(a) at address a
func (c *Ctx) load(st map[string]Term, a *Addr) Val {
	t := typeAt(a.Typ, a.Path)
	fp, idx := pathKey(a.Typ, a.Path)
	ls := leavesOf(t)
	out := Val{Typ: t}
	for _, l := range ls {
		key := a.Key + fp + l.Path
		full := wrapDims(len(idx), l.Sort)
		if a.Kind == RGlobal && c.ufGlobals != nil && len(idx) > 0 && l.Sort.K != SArray {
			if _, written := st[key]; !written && c.ufGlobals(key) {
				// frozen, uninterpreted table: reads are applications of an uninterpreted function
				name := "g_" + cellName(strings.TrimPrefix(key, "g:")) + "_uf"
				var sorts []string
				for range idx {
					sorts = append(sorts, bvSort(64).String())
				}
				c.declareFun(name, sorts, l.Sort)
				out.L = append(out.L, c.app(l.Sort, name, idx...))
				continue
			}
		}
		cur := c.cell(st, key, cellSort(a, full))
		if a.Kind == RHeap {
			cur = c.sel(cur, a.Ref)
		}
		for _, i := range idx {
			cur = c.sel(cur, i)
		}
		out.L = append(out.L, cur)
	}
	return out
}

// storeAt writes v at address a
func (c *Ctx) storeAt(st map[string]Term, a *Addr, v Val) {
	t := typeAt(a.Typ, a.Path)
	fp, idx := pathKey(a.Typ, a.Path)
	ls := leavesOf(t)
	if len(ls) != len(v.L) {
		panic(fmt.Sprintf("store: %d leaves for type %s, value has %d (%s)", len(ls), t, len(v.L), v.Typ))
	}
	for li, l := range ls {
		key := a.Key + fp + l.Path
		full := wrapDims(len(idx), l.Sort)
		cs := cellSort(a, full)
		cur := c.cell(st, key, cs)
		var obj Term
		if a.Kind == RHeap {
			obj = c.sel(cur, a.Ref)
		} else {
			obj = cur
		}
		nv := c.storePath(obj, idx, v.L[li])
		if a.Kind == RHeap {
			st[key] = c.store(cur, a.Ref, nv)
		} else {
			st[key] = nv
		}
	}
}

func (c *Ctx) storePath(arr Term, idx []Term, v Term) Term {
	if len(idx) == 0 {
		return v
	}
	inner := c.storePath(c.sel(arr, idx[0]), idx[1:], v)
	return c.store(arr, idx[0], inner)
}

func (c *Ctx) zeroVal(t types.Type) Val {
	out := Val{Typ: t}
	for _, l := range leavesOf(t) {
		out.L = append(out.L, c.zero(l.Sort))
	}
	return out
}

func (c *Ctx) freshVal(t types.Type, hint string) Val {
	out := Val{Typ: t}
	for _, l := range leavesOf(t) {
		out.L = append(out.L, c.fresh(l.Sort, hint+l.Path))
	}
	return out
}

// index into an array-typed value
func (c *Ctx) indexVal(v Val, i Term) Val {
	at := v.Typ.Underlying().(*types.Array)
	out := Val{Typ: at.Elem()}
	for _, t := range v.L {
		out.L = append(out.L, c.sel(t, i))
	}
	return out
}

// field of a struct-typed value
func fieldVal(v Val, fi int) Val {
	st := v.Typ.Underlying().(*types.Struct)
	off := 0
	for i := 0; i < fi; i++ {
		off += len(leavesOf(st.Field(i).Type()))
	}
	n := len(leavesOf(st.Field(fi).Type()))
	return Val{Typ: st.Field(fi).Type(), L: v.L[off : off+n]}
}

func (c *Ctx) iteVal(cond Term, a, b Val) Val {
	if len(a.L) != len(b.L) {
		panic(fmt.Sprintf("iteVal: shape mismatch %s / %s", a.Typ, b.Typ))
	}
	out := Val{Typ: a.Typ, Fn: a.Fn}
	for i := range a.L {
		out.L = append(out.L, c.ite(cond, a.L[i], b.L[i]))
	}
	nilOf := func(v Val) Term {
		if v.Nil.S == "" {
			return tFalse
		}
		return v.Nil
	}
	isNilConst := func(v Val) bool { return v.Addr == nil && len(v.L) == 1 && v.L[0].S == "nil_ref" }
	switch {
	case a.Addr != nil && b.Addr != nil && addrEqual(a.Addr, b.Addr):
		out.Addr = a.Addr
		if a.Nil.S != "" || b.Nil.S != "" {
			out.Nil = c.ite(cond, nilOf(a), nilOf(b))
		}
	case a.Addr != nil && isNilConst(b):
		// structural pointer or nil: keep the address, track nil-ness as a condition
		out.Addr = a.Addr
		out.Nil = c.ite(cond, nilOf(a), tTrue)
	case b.Addr != nil && isNilConst(a):
		out.Addr = b.Addr
		out.Nil = c.ite(cond, tTrue, nilOf(b))
	case a.Addr != nil || b.Addr != nil:
		// differing structural addresses cannot be merged unless both are plain refs
		if !(plainRef(a) && plainRef(b)) {
			out.Addr = &Addr{Kind: -1}
		}
	}
	if len(a.Tuple) > 0 {
		for i := range a.Tuple {
			out.Tuple = append(out.Tuple, c.iteVal(cond, a.Tuple[i], b.Tuple[i]))
		}
	}
	return out
}

func plainRef(v Val) bool {
	return v.Addr == nil || (v.Addr.Kind == RHeap && len(v.Addr.Path) == 0)
}

func addrEqual(a, b *Addr) bool {
	if a.Kind != b.Kind || a.Key != b.Key || a.Ref.S != b.Ref.S || len(a.Path) != len(b.Path) {
		return false
	}
	for i := range a.Path {
		if a.Path[i].Field != b.Path[i].Field || a.Path[i].Idx.S != b.Path[i].Idx.S {
			return false
		}
	}
	return true
}

func valEqual(a, b Val) bool {
	if len(a.L) != len(b.L) || len(a.Tuple) != len(b.Tuple) {
		return false
	}
	for i := range a.L {
		if a.L[i].S != b.L[i].S {
			return false
		}
	}
	if (a.Addr == nil) != (b.Addr == nil) || a.Nil.S != b.Nil.S {
		return false
	}
	if a.Addr != nil && !addrEqual(a.Addr, b.Addr) {
		return false
	}
	for i := range a.Tuple {
		if !valEqual(a.Tuple[i], b.Tuple[i]) {
			return false
		}
	}
	return true
}
