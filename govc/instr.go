package main

// Instruction semantics.

import (
	"fmt"
	"go/token"
	"go/types"
	"math"
	"math/big"

	"golang.org/x/tools/go/ssa"
)

func mathFloat64bits(f float64) uint64 { return math.Float64bits(f) }

// step executes one non-control instruction; returns the (possibly strengthened) reach condition
func (e *Exec) step(fr *frame, instr ssa.Instruction, reach Term, st *State) Term {
	c := e.c
	switch x := instr.(type) {
	case *ssa.DebugRef:
		if x.IsAddr {
			// a variable that lives in memory (its address is taken): specs read it through the address
			if id := x.Object(); id != nil {
				if _, ok := id.(*types.Var); ok {
					if v, ok := st.env[x.X]; ok && v.Addr != nil {
						v.Deref = true
						st.names[id.Name()] = v
					}
				}
			}
		}
		if !x.IsAddr {
			if id := x.Object(); id != nil {
				if prev, ok := st.names[id.Name()]; ok && prev.Deref {
					// the variable lives in memory: keep reading it through its address
				} else if _, ok := id.(*types.Var); ok {
					if v, ok := st.env[x.X]; ok {
						st.names[id.Name()] = v
					} else if cv, ok := x.X.(*ssa.Const); ok {
						st.names[id.Name()] = e.constVal(cv)
					}
				}
			}
		}
	case *ssa.Alloc:
		pt := x.Type().(*types.Pointer).Elem()
		if x.Heap {
			ref := c.fresh(sortRef, "new_"+x.Name())
			e.assumeFreshRef(ref, st)
			a := &Addr{Kind: RHeap, Ref: ref, Key: typeKey(pt), Typ: pt}
			c.storeAt(st.cells, a, c.zeroVal(pt))
			st.env[x] = Val{Typ: x.Type(), L: []Term{ref}, Addr: a}
			if nm := x.Comment; nm != "" && nm != "varargs" && nm != "complit" && nm != "slicelit" && nm != "makeslice" && nm != "new" {
				// a source variable that lives in memory: specs read it through this address
				nv := st.env[x]
				nv.Deref = true
				st.names[nm] = nv
			}
		} else {
			key := fmt.Sprintf("l:%s.%s", sanitize(e.fnShort(x.Parent())), x.Name())
			a := &Addr{Kind: RLocal, Key: key, Typ: pt}
			c.storeAt(st.cells, a, c.zeroVal(pt))
			st.env[x] = Val{Typ: x.Type(), L: []Term{tNil}, Addr: a}
			if nm := x.Comment; nm != "" && nm != "varargs" && nm != "complit" && nm != "slicelit" && nm != "makeslice" && nm != "new" {
				nv := st.env[x]
				nv.Deref = true
				st.names[nm] = nv
			}
		}
	case *ssa.FieldAddr:
		base := e.value(st, x.X)
		a := e.addrOfPtr(base)
		reach = e.nilCheck(base, reach, x.Pos(), "field")
		st.env[x] = Val{Typ: x.Type(), L: []Term{tNil}, Addr: a.extend(Step{Field: x.Field})}
	case *ssa.IndexAddr:
		base := e.value(st, x.X)
		idx := e.value(st, x.Index)
		i64 := e.toIndex(idx)
		switch bt := base.Typ.Underlying().(type) {
		case *types.Pointer: // pointer to array
			at := bt.Elem().Underlying().(*types.Array)
			a := e.addrOfPtr(base)
			reach = e.boundsCheck(i64, bvLitI(64, at.Len()), reach, x.Pos(), e.srcText(x.Pos(), token.NoPos), isSigned(idx.Typ))
			st.env[x] = Val{Typ: x.Type(), L: []Term{tNil}, Addr: a.extend(Step{Field: -1, Idx: i64, Len: at.Len()})}
		case *types.Slice:
			ref, off, ln := base.L[0], base.L[1], base.L[2]
			reach = e.boundsCheck(i64, ln, reach, x.Pos(), e.srcText(x.Pos(), token.NoPos), isSigned(idx.Typ))
			if base.Addr != nil && base.Addr.Kind >= 0 {
				// a slice of a whole array object that is tracked structurally (slice literal, varargs)
				if at, ok := typeAt(base.Addr.Typ, base.Addr.Path).Underlying().(*types.Array); ok {
					st.env[x] = Val{Typ: x.Type(), L: []Term{tNil}, Addr: base.Addr.extend(Step{Field: -1, Idx: i64, Len: at.Len()})}
					break
				}
			}
			st.env[x] = Val{Typ: x.Type(), L: []Term{tNil}, Addr: e.sliceElemAddr(ref, c.app(bvSort(64), "bvadd", off, i64), bt.Elem())}
		default:
			e.fail("IndexAddr on %s", base.Typ)
		}
	case *ssa.Index:
		base := e.value(st, x.X)
		idx := e.value(st, x.Index)
		i64 := e.toIndex(idx)
		switch bt := base.Typ.Underlying().(type) {
		case *types.Array:
			reach = e.boundsCheck(i64, bvLitI(64, bt.Len()), reach, x.Pos(), e.srcText(x.Pos(), token.NoPos), isSigned(idx.Typ))
			st.env[x] = c.indexVal(base, i64)
		case *types.Basic: // string
			reach = e.boundsCheck(i64, c.app(bvSort(64), "strlen", base.T()), reach, x.Pos(), e.srcText(x.Pos(), token.NoPos), isSigned(idx.Typ))
			st.env[x] = scalar(x.Type(), c.app(bvSort(8), "strat", base.T(), i64))
		default:
			e.fail("Index on %s", base.Typ)
		}
	case *ssa.Field:
		st.env[x] = fieldVal(e.value(st, x.X), x.Field)
	case *ssa.Extract:
		tv := e.value(st, x.Tuple)
		if len(tv.Tuple) == 0 {
			e.fail("extract from non-tuple")
		}
		st.env[x] = tv.Tuple[x.Index]
	case *ssa.UnOp:
		st.env[x], reach = e.unop(x, st, reach)
	case *ssa.BinOp:
		a, b := e.value(st, x.X), e.value(st, x.Y)
		var v Val
		v, reach = e.binop(x.Op, a, b, x.Type(), reach, x.Pos())
		st.env[x] = v
	case *ssa.Store:
		addr := e.value(st, x.Addr)
		val := e.value(st, x.Val)
		reach = e.nilCheck(addr, reach, x.Pos(), "store")
		a := e.addrOfPtr(addr)
		e.recordWrite(a)
		c.storeAt(st.cells, a, e.storable(val))
	case *ssa.Convert:
		st.env[x] = e.convert(e.value(st, x.X), x.Type())
	case *ssa.ChangeType:
		v := e.value(st, x.X)
		v.Typ = x.Type()
		st.env[x] = v
	case *ssa.Call:
		reach = e.call(fr, x, reach, st)
	case *ssa.MakeInterface:
		// interface values are opaque; distinct from nil
		t := c.fresh(sortIface, "iface")
		c.assume(c.implies(reach, c.not(c.eq(t, Term{"nil_iface", sortIface}))), "")
		iv := scalar(x.Type(), t)
		bv := e.value(st, x.X)
		iv.Boxed = &bv
		st.env[x] = iv
	case *ssa.ChangeInterface:
		v := e.value(st, x.X)
		v.Typ = x.Type()
		st.env[x] = v
	case *ssa.Slice:
		st.env[x], reach = e.sliceOp(x, st, reach)
	case *ssa.MakeSlice:
		ln := e.toIndex(e.value(st, x.Len))
		cp := e.toIndex(e.value(st, x.Cap))
		if e.safety {
			g := c.and(c.app(sortBool, "bvsge", ln, bvLitI(64, 0)), c.app(sortBool, "bvsle", ln, cp),
				c.app(sortBool, "bvslt", cp, bvLitI(64, 1<<40)))
			e.oblige("makelen", e.srcText(x.Pos(), token.NoPos), reach, g, x.Pos())
			c.assume(c.implies(reach, g), "")
		}
		ref := c.fresh(sortRef, "mk_"+x.Name())
		e.assumeFreshRef(ref, st)
		el := x.Type().Underlying().(*types.Slice).Elem()
		// zeroed backing array
		a := e.sliceElemAddr(ref, bvLitI(64, 0), el)
		a.Path = nil
		for _, l := range leavesOf(el) {
			key := a.Key + l.Path
			full := arraySort(bvSort(64), l.Sort)
			cur := c.cell(st.cells, key, arraySort(sortRef, full))
			st.cells[key] = c.store(cur, ref, c.zero(full))
		}
		st.env[x] = Val{Typ: x.Type(), L: []Term{ref, bvLitI(64, 0), ln, cp}}
	case *ssa.Range:
		// iterator over a string or a map: opaque; Next yields arbitrary elements
		rv := e.value(st, x.X)
		it := scalar(x.Type(), c.fresh(sortOpaque, "iter"))
		it.Boxed = &rv
		st.env[x] = it
	case *ssa.Next:
		// (ok, key, value): an arbitrary number of iterations over arbitrary elements (sound
		// over-approximation of any string / map content); string keys are valid indices
		tup := x.Type().(*types.Tuple)
		var tv Val
		tv.Typ = tup
		for i := 0; i < tup.Len(); i++ {
			et := tup.At(i).Type()
			if b, ok := et.(*types.Basic); ok && b.Kind() == types.Invalid {
				et = types.Typ[types.Int] // unused component
			}
			tv.Tuple = append(tv.Tuple, c.freshVal(et, "next"))
		}
		if x.IsString {
			if it := e.value(st, x.Iter); it.Boxed != nil && len(it.Boxed.L) == 1 && it.Boxed.T().Sort.K == SStr {
				k := tv.Tuple[1].T()
				c.assume(c.implies(c.and(reach, tv.Tuple[0].T()), c.and(c.app(sortBool, "bvsge", k, bvLitI(64, 0)), c.app(sortBool, "bvslt", k, c.app(bvSort(64), "strlen", it.Boxed.T())))), "range over string: index in range")
			}
		}
		st.env[x] = tv
	case *ssa.RunDefers:
		// deferred mutex unlocks run now (latest first); other accepted defers have no effect on
		// the modelled state
		for i := len(fr.deferred) - 1; i >= 0; i-- {
			d := fr.deferred[i]
			cond, ok := st.cells[d.key]
			if !ok {
				continue
			}
			_, _ = e.libraryCall(d.fn, d.args, c.and(reach, cond), st, x.Pos())
		}
	case *ssa.Defer:
		if fn := x.Call.StaticCallee(); fn != nil && !x.Call.IsInvoke() && (fn.String() == "(*sync.Mutex).Unlock" || fn.String() == "(*sync.RWMutex).Unlock") {
			var args []Val
			for _, a := range x.Call.Args {
				args = append(args, e.value(st, a))
			}
			key := fmt.Sprintf("l:defer.%s.%d", sanitize(e.fnShort(x.Parent())), len(fr.deferred))
			fr.deferred = append(fr.deferred, deferredCall{fn: fn, args: args, key: key})
			prev, ok := st.cells[key]
			if !ok {
				prev = tFalse
			}
			st.cells[key] = c.ite(reach, tTrue, prev)
		} else if fn := x.Call.StaticCallee(); fn != nil && !inRepo(fn) && !x.Call.IsInvoke() {
			e.trusted["deferred library call "+fn.String()+" dropped (no effect on modelled state)"] = true
		} else {
			reach = e.exotic(fr, instr, reach, st)
		}
	case *ssa.TypeAssert, *ssa.MakeClosure, *ssa.MakeMap, *ssa.MapUpdate, *ssa.Lookup,
		*ssa.Go, *ssa.Select, *ssa.Send, *ssa.MakeChan:
		reach = e.exotic(fr, instr, reach, st)
		if _, ok := instr.(*ssa.MakeMap); ok {
			// ghost updates anchored "makemap": a fresh map was made here
			e.plainAnchors(fr, st, "makemap", nil)
		}
		if lk, ok := instr.(*ssa.Lookup); ok && lk.CommaOk {
			// ghost updates anchored "lookup": result0 is the value, result1 the ok flag of a
			// `v, ok := m[k]` (the map itself is not modelled: both are arbitrary)
			if v, ok := st.env[lk]; ok && len(v.Tuple) == 2 {
				e.plainAnchors(fr, st, "lookup", v.Tuple)
			}
		}
	default:
		e.fail("unsupported instruction %T: %s", instr, instr)
	}
	return reach
}

// exotic: instructions outside the modelled subset.  Results are havocked when the contract of
// the unit allows abstraction (`abstract` clause); otherwise the unit fails.
func (e *Exec) exotic(fr *frame, instr ssa.Instruction, reach Term, st *State) Term {
	if !e.abstractAll && (fr.spec == nil || !fr.spec.Abstract) {
		if ct := e.prog.contracts[funcKey(fr.fi.Fn)]; ct == nil || !ct.Abstract {
			e.fail("instruction outside the subset: %T %s (%s)", instr, instr, e.posStr(instr.Pos()))
		}
	}
	e.trusted[fmt.Sprintf("abstracted instruction %T in %s", instr, fr.fi.Fn.Name())] = true
	if v, ok := instr.(ssa.Value); ok {
		if tup, ok := v.Type().(*types.Tuple); ok {
			var tv Val
			tv.Typ = tup
			for i := 0; i < tup.Len(); i++ {
				tv.Tuple = append(tv.Tuple, e.c.freshVal(tup.At(i).Type(), "abs"))
			}
			st.env[v] = tv
		} else {
			st.env[v] = e.c.freshVal(v.Type(), "abs")
		}
	}
	return reach
}

func (e *Exec) sliceElemAddr(ref, idx Term, el types.Type) *Addr {
	at := types.NewArray(el, 1<<40)
	return &Addr{Kind: RHeap, Ref: ref, Key: "[]" + typeKey(el), Typ: at, Path: []Step{{Field: -1, Idx: idx, Len: 1 << 40}}}
}

func (e *Exec) assumeFreshRef(ref Term, st *State) {
	c := e.c
	c.assume(c.not(c.eq(ref, tNil)), "fresh ref non-nil")
	for _, o := range e.refs {
		c.assume(c.not(c.eq(ref, o)), "fresh ref distinct")
	}
	e.refs = append(e.refs, ref)
	e.fresh = append(e.fresh, ref)
	e.trusted["freshly allocated objects are distinct from parameters and earlier allocations (not from pointers loaded out of memory)"] = true
}

func (e *Exec) recordWrite(a *Addr) {}

// storable: a pointer value with a structural address must become a Ref before being stored
func (e *Exec) storable(v Val) Val {
	if v.Addr != nil {
		if _, ok := v.Typ.Underlying().(*types.Pointer); ok {
			return Val{Typ: v.Typ, L: []Term{e.refOfPtr(v)}}
		}
	}
	return v
}

func (e *Exec) toIndex(v Val) Term {
	t := v.T()
	if t.Sort.K != SBV {
		e.fail("index of sort %s", t.Sort)
	}
	return e.extend(t, 64, isSigned(v.Typ))
}

func (e *Exec) extend(t Term, w int, signed bool) Term {
	c := e.c
	if t.Sort.W == w {
		return t
	}
	if t.Sort.W > w {
		if lv, ok := litValue(t); ok {
			return bvLit(w, lv)
		}
		if m, ok := c.mapLitIte(t, func(v *big.Int) Term { return bvLit(w, v) }, 0); ok {
			return m
		}
		return c.def(bvSort(w), fmt.Sprintf("((_ extract %d 0) %s)", w-1, t.S))
	}
	if lv, ok := litValue(t); ok {
		if signed {
			return bvLit(w, signedValue(lv, t.Sort.W))
		}
		return bvLit(w, lv)
	}
	op := "zero_extend"
	if signed {
		op = "sign_extend"
	}
	return c.def(bvSort(w), fmt.Sprintf("((_ %s %d) %s)", op, w-t.Sort.W, t.S))
}

func (e *Exec) boundsCheck(i64, ln Term, reach Term, pos token.Pos, label string, signed bool) Term {
	c := e.c
	g := c.app(sortBool, "bvult", i64, ln)
	if iv, ok := litValue(i64); ok {
		if lv, ok2 := litValue(ln); ok2 {
			if iv.Cmp(lv) < 0 {
				return reach
			}
		}
	}
	if e.safety {
		e.oblige("index", label, reach, g, pos)
	}
	// after the check the index is in range on every continuing execution
	c.assume(c.implies(reach, g), "")
	return reach
}

func (e *Exec) nilCheck(p Val, reach Term, pos token.Pos, what string) Term {
	if p.Addr != nil && p.Nil.S != "" && p.Nil.S != "false" {
		g := e.c.not(p.Nil)
		if e.nilcheck || e.safety {
			e.oblige("nil", e.srcText(pos, token.NoPos), reach, g, pos)
		}
		e.c.assume(e.c.implies(reach, g), "")
		return reach
	}
	if !e.nilcheck || p.Addr != nil && (p.Addr.Kind != RHeap || len(p.Addr.Path) > 0) {
		return reach
	}
	c := e.c
	var ref Term
	if p.Addr != nil {
		ref = p.Addr.Ref
	} else {
		ref = p.T()
	}
	g := c.not(c.eq(ref, tNil))
	e.oblige("nil", e.srcText(pos, token.NoPos), reach, g, pos)
	c.assume(c.implies(reach, g), "")
	return reach
}

func (e *Exec) unop(x *ssa.UnOp, st *State, reach Term) (Val, Term) {
	c := e.c
	v := e.value(st, x.X)
	switch x.Op {
	case token.MUL: // load
		reach = e.nilCheck(v, reach, x.Pos(), "load")
		a := e.addrOfPtr(v)
		out := c.load(st.cells, a)
		out.Typ = x.Type()
		if a.Kind == RGlobal && len(a.Path) == 0 {
			out.Global = a.Key
		}
		if _, isSl := x.Type().Underlying().(*types.Slice); isSl && len(out.L) == 4 {
			// type invariant of Go slices (lengths are bounded by the address space; 2^40 elements here)
			c.assume(c.implies(reach, c.and(c.app(sortBool, "bvule", out.L[2], out.L[3]), c.app(sortBool, "bvult", out.L[3], bvLitI(64, 1<<40)), c.app(sortBool, "bvult", out.L[1], bvLitI(64, 1<<40)))), "slice loaded from memory is well-formed")
		}
		return out, reach
	case token.NOT:
		return scalar(x.Type(), c.not(v.T())), reach
	case token.SUB:
		if v.T().Sort.K == SFloat {
			return scalar(x.Type(), c.app(sortFloat, "fp.neg", v.T())), reach
		}
		if lv, ok := litValue(v.T()); ok {
			return scalar(x.Type(), bvLit(v.T().Sort.W, new(big.Int).Neg(lv))), reach
		}
		return scalar(x.Type(), c.app(v.T().Sort, "bvneg", v.T())), reach
	case token.XOR:
		return scalar(x.Type(), e.foldNot(v.T())), reach
	}
	e.fail("unop %s", x.Op)
	return Val{}, reach
}

func (e *Exec) binop(op token.Token, a, b Val, rt types.Type, reach Term, pos token.Pos) (Val, Term) {
	c := e.c
	// comparisons of aggregates / pointers
	if op == token.EQL || op == token.NEQ {
		var eqs []Term
		if len(a.L) != len(b.L) {
			// nil compared with a slice etc.
			if len(a.L) == 4 && len(b.L) == 1 {
				eqs = append(eqs, c.eq(a.L[0], tNil))
			} else if len(b.L) == 4 && len(a.L) == 1 {
				eqs = append(eqs, c.eq(b.L[0], tNil))
			} else {
				e.fail("comparison of different shapes %s %s", a.Typ, b.Typ)
			}
		} else {
			if _, isPtr := a.Typ.Underlying().(*types.Pointer); isPtr && (a.Addr != nil || b.Addr != nil) {
				eqs = append(eqs, e.ptrEq(a, b))
			} else if isNilLit(a) && b.Addr != nil {
				eqs = append(eqs, e.ptrEq(b, a))
			} else if isNilLit(b) && a.Addr != nil {
				eqs = append(eqs, e.ptrEq(a, b))
			} else if se, ok := e.strLitEq(a, b); ok {
				eqs = append(eqs, se)
			} else {
				for i := range a.L {
					x, y := a.L[i], b.L[i]
					if x.Sort.K == SRef && y.Sort.K != SRef || x.Sort.K != y.Sort.K {
						x, y = e.coerceNil(x, y)
					}
					eqs = append(eqs, c.eq(x, y))
				}
			}
		}
		r := c.and(eqs...)
		if op == token.NEQ {
			r = c.not(r)
		}
		return scalar(rt, r), reach
	}
	x, y := a.T(), b.T()
	switch x.Sort.K {
	case SBool:
		switch op {
		case token.LAND, token.AND:
			return scalar(rt, c.and(x, y)), reach
		case token.LOR, token.OR:
			return scalar(rt, c.or(x, y)), reach
		}
	case SStr:
		switch op {
		case token.ADD:
			return scalar(rt, c.app(sortStr, "strcat", x, y)), reach
		default:
			return scalar(rt, c.fresh(sortBool, "strcmp")), reach
		}
	case SFloat:
		switch op {
		case token.ADD:
			return scalar(rt, c.def(sortFloat, fmt.Sprintf("(fp.add RNE %s %s)", x.S, y.S))), reach
		case token.SUB:
			return scalar(rt, c.def(sortFloat, fmt.Sprintf("(fp.sub RNE %s %s)", x.S, y.S))), reach
		case token.MUL:
			return scalar(rt, c.def(sortFloat, fmt.Sprintf("(fp.mul RNE %s %s)", x.S, y.S))), reach
		case token.QUO:
			return scalar(rt, c.def(sortFloat, fmt.Sprintf("(fp.div RNE %s %s)", x.S, y.S))), reach
		case token.LSS:
			return scalar(rt, c.app(sortBool, "fp.lt", x, y)), reach
		case token.LEQ:
			return scalar(rt, c.app(sortBool, "fp.leq", x, y)), reach
		case token.GTR:
			return scalar(rt, c.app(sortBool, "fp.gt", x, y)), reach
		case token.GEQ:
			return scalar(rt, c.app(sortBool, "fp.geq", x, y)), reach
		}
	case SBV:
		signed := isSigned(a.Typ)
		w := x.Sort.W
		bin := func(op string) (Val, Term) { return scalar(rt, e.foldBV(op, x, y, signed)), reach }
		cmp := func(s, u string) (Val, Term) {
			o := u
			if signed {
				o = s
			}
			return scalar(rt, e.foldCmp(o, x, y)), reach
		}
		switch op {
		case token.ADD:
			return bin("bvadd")
		case token.SUB:
			return bin("bvsub")
		case token.MUL:
			return bin("bvmul")
		case token.AND:
			return bin("bvand")
		case token.OR:
			return bin("bvor")
		case token.XOR:
			return bin("bvxor")
		case token.AND_NOT:
			return scalar(rt, e.foldBV("bvand", x, e.foldNot(y), signed)), reach
		case token.QUO, token.REM:
			if e.safety {
				g := c.not(c.eq(y, bvLitI(w, 0)))
				e.oblige("div", e.srcText(pos, token.NoPos), reach, g, pos)
				c.assume(c.implies(reach, g), "")
			}
			o := map[bool]map[token.Token]string{true: {token.QUO: "bvsdiv", token.REM: "bvsrem"}, false: {token.QUO: "bvudiv", token.REM: "bvurem"}}[signed][op]
			if _, lit := litValue(y); e.divAbstract && !lit && op == token.QUO && w == 64 {
				// division by a symbolic divisor as an uninterpreted function that satisfies
				// 0 <= a/b <= a for a >= 0, b >= 1 (assumed fact about truncated division)
				name := "sdiv64_uf"
				ge, le := "bvsge", "bvsle"
				if !signed {
					name, ge, le = "udiv64_uf", "bvuge", "bvule"
				}
				c.declareFun(name, []string{bvSort(64).String(), bvSort(64).String()}, bvSort(64))
				r := c.app(bvSort(64), name, x, y)
				zero, one := bvLitI(64, 0), bvLitI(64, 1)
				fact := c.implies(c.and(c.app(sortBool, ge, x, zero), c.app(sortBool, ge, y, one)), c.and(c.app(sortBool, ge, r, zero), c.app(sortBool, le, r, x)))
				c.axiom(r.S, name, fact)
				c.symOfConst[r.S] = name
				e.trusted["64-bit division by a symbolic divisor is abstracted to an uninterpreted function with the assumed fact 0 <= a/b <= a for a >= 0, b >= 1"] = true
				return scalar(rt, r), reach
			}
			return bin(o)
		case token.SHL, token.SHR:
			return scalar(rt, e.shift(op, x, b, signed, reach, pos)), reach
		case token.LSS:
			return cmp("bvslt", "bvult")
		case token.LEQ:
			return cmp("bvsle", "bvule")
		case token.GTR:
			return cmp("bvsgt", "bvugt")
		case token.GEQ:
			return cmp("bvsge", "bvuge")
		}
	}
	e.fail("binop %s on %s", op, a.Typ)
	return Val{}, reach
}

// strLitEq: equality of a string with a literal, written out over length and characters (strings
// are an uninterpreted sort; this makes the equality with a literal exact in both directions)
func (e *Exec) strLitEq(a, b Val) (Term, bool) {
	c := e.c
	if len(a.L) != 1 || len(b.L) != 1 || a.T().Sort.K != SStr || b.T().Sort.K != SStr {
		return Term{}, false
	}
	lit := func(t Term) (string, bool) {
		for s, lt := range c.strLits {
			if lt.S == t.S {
				return s, true
			}
		}
		return "", false
	}
	x, y := a.T(), b.T()
	s, ok := lit(y)
	if !ok {
		s, ok = lit(x)
		x, y = y, x
	}
	if !ok || len(s) > 16 {
		return Term{}, false
	}
	if _, both := lit(x); both {
		return Term{}, false // two literals: distinctness is asserted separately
	}
	conj := []Term{c.eq(c.app(bvSort(64), "strlen", x), bvLitI(64, int64(len(s))))}
	for i := 0; i < len(s); i++ {
		conj = append(conj, c.eq(c.app(bvSort(8), "strat", x, bvLitI(64, int64(i))), bvLitI(8, int64(s[i]))))
	}
	return c.and(conj...), true
}

func (e *Exec) coerceNil(x, y Term) (Term, Term) {
	c := e.c
	if x.S == "nil_ref" {
		return c.zero(y.Sort), y
	}
	if y.S == "nil_ref" {
		return x, c.zero(x.Sort)
	}
	e.fail("comparison of sorts %s and %s", x.Sort, y.Sort)
	return x, y
}

func (e *Exec) foldNot(x Term) Term {
	if v, ok := litValue(x); ok {
		m := new(big.Int).Sub(new(big.Int).Lsh(big.NewInt(1), uint(x.Sort.W)), big.NewInt(1))
		return bvLit(x.Sort.W, new(big.Int).Xor(v, m))
	}
	return e.c.app(x.Sort, "bvnot", x)
}

func (e *Exec) foldBV(op string, x, y Term, signed bool) Term {
	c := e.c
	vx, okx := litValue(x)
	vy, oky := litValue(y)
	w := x.Sort.W
	if okx && oky {
		r := new(big.Int)
		switch op {
		case "bvadd":
			return bvLit(w, r.Add(vx, vy))
		case "bvsub":
			return bvLit(w, r.Sub(vx, vy))
		case "bvmul":
			return bvLit(w, r.Mul(vx, vy))
		case "bvand":
			return bvLit(w, r.And(vx, vy))
		case "bvor":
			return bvLit(w, r.Or(vx, vy))
		case "bvxor":
			return bvLit(w, r.Xor(vx, vy))
		}
	}
	return c.app(x.Sort, op, x, y)
}

func (e *Exec) foldCmp(op string, x, y Term) Term {
	vx, okx := litValue(x)
	vy, oky := litValue(y)
	if okx && oky {
		w := x.Sort.W
		var r bool
		sx, sy := signedValue(vx, w), signedValue(vy, w)
		switch op {
		case "bvult":
			r = vx.Cmp(vy) < 0
		case "bvule":
			r = vx.Cmp(vy) <= 0
		case "bvugt":
			r = vx.Cmp(vy) > 0
		case "bvuge":
			r = vx.Cmp(vy) >= 0
		case "bvslt":
			r = sx.Cmp(sy) < 0
		case "bvsle":
			r = sx.Cmp(sy) <= 0
		case "bvsgt":
			r = sx.Cmp(sy) > 0
		case "bvsge":
			r = sx.Cmp(sy) >= 0
		}
		if r {
			return tTrue
		}
		return tFalse
	}
	return e.c.app(sortBool, op, x, y)
}

// Go shift semantics: count is unsigned (or signed and non-negative: panic otherwise);
// counts >= width give 0 (or sign fill for arithmetic right shift).
func (e *Exec) shift(op token.Token, x Term, cnt Val, signed bool, reach Term, pos token.Pos) Term {
	c := e.c
	w := x.Sort.W
	ct := cnt.T()
	if isSigned(cnt.Typ) {
		if lv, ok := litValue(ct); !ok || signedValue(lv, ct.Sort.W).Sign() < 0 {
			g := c.app(sortBool, "bvsge", ct, bvLitI(ct.Sort.W, 0))
			if e.safety {
				e.oblige("shift", e.srcText(pos, token.NoPos), reach, g, pos)
			}
			c.assume(c.implies(reach, g), "")
		}
	}
	// bring count to width w, saturating
	var cw Term
	var big_ Term // condition: count >= w
	if ct.Sort.W <= w {
		cw = e.extend(ct, w, false)
		big_ = e.foldCmp("bvuge", cw, bvLitI(w, int64(w)))
	} else {
		big_ = e.foldCmp("bvuge", ct, bvLitI(ct.Sort.W, int64(w)))
		cw = e.extend(ct, w, false)
	}
	if lv, ok := litValue(cw); ok && big_.S == "false" {
		if xv, okx := litValue(x); okx {
			switch {
			case op == token.SHL:
				return bvLit(w, new(big.Int).Lsh(xv, uint(lv.Int64())))
			case signed:
				return bvLit(w, new(big.Int).Rsh(signedValue(xv, w), uint(lv.Int64())))
			default:
				return bvLit(w, new(big.Int).Rsh(xv, uint(lv.Int64())))
			}
		}
	}
	if big_.S == "true" {
		if xv, okx := litValue(x); okx || !(signed && op == token.SHR) {
			if op == token.SHL || !signed {
				return bvLitI(w, 0)
			}
			if okx {
				if signedValue(xv, w).Sign() < 0 {
					return bvLitI(w, -1)
				}
				return bvLitI(w, 0)
			}
		}
	}
	var sh, over Term
	switch {
	case op == token.SHL:
		sh = c.app(x.Sort, "bvshl", x, cw)
		over = bvLitI(w, 0)
	case signed:
		sh = c.app(x.Sort, "bvashr", x, cw)
		over = c.app(x.Sort, "bvashr", x, bvLitI(w, int64(w-1)))
	default:
		sh = c.app(x.Sort, "bvlshr", x, cw)
		over = bvLitI(w, 0)
	}
	return c.ite(big_, over, sh)
}

func (e *Exec) convert(v Val, to types.Type) Val {
	c := e.c
	from := v.Typ
	ts := scalarSort(to)
	if ts == nil {
		// e.g. []byte(string)
		return c.freshVal(to, "conv")
	}
	if len(v.L) != 1 {
		return c.freshVal(to, "conv")
	}
	x := v.T()
	switch {
	case x.Sort.K == SBV && ts.K == SBV:
		return scalar(to, e.extend(x, ts.W, isSigned(from)))
	case x.Sort.K == SBV && ts.K == SFloat:
		op := "to_fp_unsigned"
		if isSigned(from) {
			op = "to_fp"
		}
		return scalar(to, c.def(sortFloat, fmt.Sprintf("((_ %s 11 53) RNE %s)", op, x.S)))
	case x.Sort.K == SFloat && ts.K == SBV:
		op := "fp.to_ubv"
		if isSigned(to) {
			op = "fp.to_sbv"
		}
		return scalar(to, c.def(ts, fmt.Sprintf("((_ %s %d) RTZ %s)", op, ts.W, x.S)))
	case x.Sort.K == SFloat && ts.K == SFloat:
		return scalar(to, x)
	case ts.K == SStr:
		// string(rune) / string(bytes): a string determined by the operand
		if x.Sort.K == SBV {
			r := e.extend(x, 32, isSigned(from))
			sr := c.app(sortStr, "str_of_rune", r)
			// UTF-8: an ASCII rune is one byte, everything else at least two (1..4 in all)
			ln := c.app(bvSort(64), "strlen", sr)
			ascii := c.app(sortBool, "bvult", r, bvLitI(32, 128))
			first := c.app(bvSort(8), "strat", sr, bvLitI(64, 0))
			low := c.def(bvSort(8), fmt.Sprintf("((_ extract 7 0) %s)", r.S))
			c.assume(c.and(c.implies(ascii, c.and(c.eq(ln, bvLitI(64, 1)), c.eq(first, low))),
				c.implies(c.not(ascii), c.and(c.app(sortBool, "bvuge", ln, bvLitI(64, 1)), c.app(sortBool, "bvule", ln, bvLitI(64, 4)), c.app(sortBool, "bvuge", first, bvLitI(8, 128))))), "string(rune)")
			return scalar(to, sr)
		}
		return scalar(to, c.fresh(sortStr, "conv"))
	case x.Sort.K == ts.K:
		return scalar(to, x)
	}
	return c.freshVal(to, "conv")
}

func (e *Exec) sliceOp(x *ssa.Slice, st *State, reach Term) (Val, Term) {
	c := e.c
	base := e.value(st, x.X)
	bv64 := bvSort(64)
	var lo, hi Term
	lo = bvLitI(64, 0)
	if x.Low != nil {
		lo = e.toIndex(e.value(st, x.Low))
	}
	switch bt := base.Typ.Underlying().(type) {
	case *types.Slice:
		ref, off, ln, cp := base.L[0], base.L[1], base.L[2], base.L[3]
		hi = ln
		if x.High != nil {
			hi = e.toIndex(e.value(st, x.High))
		}
		g := c.and(c.app(sortBool, "bvule", lo, hi), c.app(sortBool, "bvule", hi, cp))
		if e.safety {
			e.oblige("slice", e.srcText(x.Pos(), token.NoPos), reach, g, x.Pos())
		}
		c.assume(c.implies(reach, g), "")
		return Val{Typ: x.Type(), L: []Term{ref, c.app(bv64, "bvadd", off, lo), c.app(bv64, "bvsub", hi, lo), c.app(bv64, "bvsub", cp, lo)}}, reach
	case *types.Basic: // string
		hi = c.app(bv64, "strlen", base.T())
		if x.High != nil {
			hi = e.toIndex(e.value(st, x.High))
		}
		g := c.and(c.app(sortBool, "bvule", lo, hi), c.app(sortBool, "bvule", hi, c.app(bv64, "strlen", base.T())))
		if e.safety {
			e.oblige("slice", e.srcText(x.Pos(), token.NoPos), reach, g, x.Pos())
		}
		c.assume(c.implies(reach, g), "")
		r := c.fresh(sortStr, "substr")
		c.assume(c.implies(reach, c.eq(c.app(bv64, "strlen", r), c.app(bv64, "bvsub", hi, lo))), "")
		return scalar(x.Type(), r), reach
	case *types.Pointer: // pointer to array (varargs packs): contents not tracked
		at := bt.Elem().Underlying().(*types.Array)
		ref := c.fresh(sortRef, "arrslice")
		out := Val{Typ: x.Type(), L: []Term{ref, bvLitI(64, 0), bvLitI(64, at.Len()), bvLitI(64, at.Len())}}
		if x.Low == nil && x.High == nil && base.Addr != nil && (base.Addr.Kind == RLocal || base.Addr.Kind == RHeap) && len(base.Addr.Path) == 0 {
			out.Addr = base.Addr // contents tracked through the local array (varargs packs)
		}
		return out, reach
	}
	e.fail("slice of %s", base.Typ)
	return Val{}, reach
}

func isNilLit(v Val) bool { return v.Addr == nil && len(v.L) == 1 && v.L[0].S == "nil_ref" }

// ptrEq: equality of two pointer values, at least one of which has a structural address
func (e *Exec) ptrEq(a, b Val) Term {
	c := e.c
	nilOf := func(v Val) Term {
		if v.Addr != nil {
			if v.Addr.Kind == RHeap && len(v.Addr.Path) == 0 {
				return c.eq(v.Addr.Ref, tNil)
			}
			if v.Nil.S == "" {
				return tFalse
			}
			return v.Nil
		}
		return c.eq(v.T(), tNil)
	}
	if isNilLit(b) {
		return nilOf(a)
	}
	if isNilLit(a) {
		return nilOf(b)
	}
	if a.Addr != nil && b.Addr != nil {
		if a.Addr.Kind != b.Addr.Kind || a.Addr.Key != b.Addr.Key || len(a.Addr.Path) != len(b.Addr.Path) {
			return c.and(nilOf(a), nilOf(b))
		}
		conj := []Term{}
		if a.Addr.Kind == RHeap {
			conj = append(conj, c.eq(a.Addr.Ref, b.Addr.Ref))
		}
		for i := range a.Addr.Path {
			pa, pb := a.Addr.Path[i], b.Addr.Path[i]
			if pa.Field != pb.Field {
				return c.and(nilOf(a), nilOf(b))
			}
			if pa.Field < 0 {
				conj = append(conj, c.eq(pa.Idx, pb.Idx))
			}
		}
		same := c.and(conj...)
		return c.or(c.and(nilOf(a), nilOf(b)), c.and(c.not(nilOf(a)), c.not(nilOf(b)), same))
	}
	return c.eq(e.refOfPtr(a), e.refOfPtr(b))
}
