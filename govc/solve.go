package main

// Discharging obligations: z3-new first, then a race of z3 4.8 / z3 5.1 / cvc5.

import (
	"bytes"
	"context"
	"fmt"
	"os"
	"os/exec"
	"path/filepath"
	"strings"
	"sync"
	"time"
)

type SolverCfg struct {
	FirstTimeout time.Duration
	FullTimeout  time.Duration
	Confirm      bool // thorough: require a second solver to agree on unsat
	WorkDir      string
	Workers      int
	Known        map[string][]KnownFinding
}

type Job struct {
	O     *Oblig // template obligation
	Inst  *Oblig // instance (with split) that receives the result
	Unit  *Unit
	Extra []Term
}

var solverBins = []struct{ name, bin string }{
	{"z3-5.1.0", "z3-new"},
	{"z3-4.8.12", "z3"},
	{"cvc5-1.0", "cvc5"},
}

func solverArgs(name string, timeout time.Duration, file string) []string {
	ms := int(timeout / time.Millisecond)
	switch {
	case strings.HasPrefix(name, "z3"):
		return []string{fmt.Sprintf("-t:%d", ms), file}
	default:
		return []string{"--tlimit", fmt.Sprint(ms), "--produce-models", file}
	}
}

type solveResult struct {
	status string // unsat sat unknown timeout error
	solver string
	secs   float64
	out    string
}

func runSolver(ctx context.Context, name, bin string, timeout time.Duration, file string) solveResult {
	start := time.Now()
	cctx, cancel := context.WithTimeout(ctx, timeout+2*time.Second)
	defer cancel()
	cmd := exec.CommandContext(cctx, bin, solverArgs(name, timeout, file)...)
	var out bytes.Buffer
	cmd.Stdout = &out
	cmd.Stderr = &out
	_ = cmd.Run()
	secs := time.Since(start).Seconds()
	text := out.String()
	first := strings.TrimSpace(strings.SplitN(text, "\n", 2)[0])
	st := "error"
	switch first {
	case "unsat", "sat", "unknown":
		st = first
	case "timeout":
		st = "timeout"
	}
	if st == "error" && cctx.Err() != nil {
		st = "timeout"
	}
	if st == "unknown" && secs >= timeout.Seconds()*0.9 {
		st = "timeout"
	}
	return solveResult{st, name, secs, text}
}

func solveFile(cfg *SolverCfg, z3file, cvcfile string) solveResult {
	// stage 1: z3-new alone with the short timeout
	r := runSolver(context.Background(), solverBins[0].name, solverBins[0].bin, cfg.FirstTimeout, z3file)
	if r.status == "unsat" || r.status == "sat" {
		return r
	}
	// stage 2: race
	ctx, cancel := context.WithCancel(context.Background())
	defer cancel()
	ch := make(chan solveResult, len(solverBins))
	for _, s := range solverBins {
		s := s
		f := z3file
		if strings.HasPrefix(s.name, "cvc5") {
			f = cvcfile
		}
		go func() { ch <- runSolver(ctx, s.name, s.bin, cfg.FullTimeout, f) }()
	}
	var last solveResult = r
	total := r.secs
	for i := 0; i < len(solverBins); i++ {
		x := <-ch
		if x.status == "unsat" || x.status == "sat" {
			x.secs += total
			return x
		}
		if x.status != "error" || last.status == "error" {
			last = x
		}
	}
	last.secs += total
	return last
}

func discharge(cfg *SolverCfg, units []*Unit) []*Oblig {
	os.MkdirAll(cfg.WorkDir, 0o755)
	var jobs []Job
	var all []*Oblig
	add := func(u *Unit, inst *Oblig) {
		ks := cfg.Known[baseKey(inst.Name)]
		if len(ks) == 0 {
			all = append(all, inst)
			jobs = append(jobs, Job{Inst: inst, Unit: u})
			return
		}
		c := u.Ctx
		whole := false
		var outside []Term
		for i := range ks {
			k := &ks[i]
			in := *inst
			in.KnownInside = k
			in.Name = inst.Name + "{known:" + fmt.Sprint(i) + "}"
			if k.CarveOut == "" {
				whole = true
			} else {
				t := u.Carve[k.CarveOut]
				in.Extra = append(append([]Term{}, inst.Extra...), t)
				outside = append(outside, c.not(t))
			}
			all = append(all, &in)
			jobs = append(jobs, Job{Inst: &in, Unit: u})
		}
		if !whole {
			out := *inst
			out.Extra = append(append([]Term{}, inst.Extra...), outside...)
			all = append(all, &out)
			jobs = append(jobs, Job{Inst: &out, Unit: u})
		}
	}
	for _, u := range units {
		for _, o := range u.Obligs {
			if len(u.Splits) > 0 && o.Kind != "vacuity" {
				for i, sp := range u.Splits {
					inst := *o
					inst.Name = o.Name + u.SplitNm[i]
					inst.Extra = sp
					add(u, &inst)
				}
			} else {
				add(u, o)
			}
		}
	}
	var wg sync.WaitGroup
	ch := make(chan int, len(jobs))
	for i := range jobs {
		ch <- i
	}
	close(ch)
	for w := 0; w < cfg.Workers; w++ {
		wg.Add(1)
		go func(w int) {
			defer wg.Done()
			for i := range ch {
				j := jobs[i]
				text := j.Unit.Ctx.emit(j.Inst, "")
				j.Inst.SMTBytes = len(text)
				zf := filepath.Join(cfg.WorkDir, fmt.Sprintf("o%d.smt2", i))
				cf := filepath.Join(cfg.WorkDir, fmt.Sprintf("o%d.cvc5.smt2", i))
				os.WriteFile(zf, []byte(text), 0o644)
				os.WriteFile(cf, []byte(strings.Replace(text, "(set-option :produce-models true)\n", "(set-option :produce-models true)\n(set-logic ALL)\n", 1)), 0o644)
				r := solveFile(cfg, zf, cf)
				if cfg.Confirm && r.status == "unsat" && j.Inst.Expect == "" {
					// second opinion from a different solver
					for _, s := range solverBins {
						if s.name == r.solver {
							continue
						}
						f := zf
						if strings.HasPrefix(s.name, "cvc5") {
							f = cf
						}
						r2 := runSolver(context.Background(), s.name, s.bin, cfg.FullTimeout, f)
						if r2.status == "sat" {
							r.status = "disagree"
							r.out += "\n--- " + s.name + " says sat:\n" + r2.out
							break
						}
						if r2.status == "unsat" {
							r.solver += "+" + s.name
							break
						}
					}
				}
				j.Inst.Status = r.status
				j.Inst.Solver = r.solver
				j.Inst.Secs = r.secs
				j.Inst.Output = r.out
				if r.status == "unsat" || (r.status == "sat" && j.Inst.Expect == "sat") {
					os.Remove(zf)
					os.Remove(cf)
				} else {
					os.Remove(cf)
				}
			}
		}(w)
	}
	wg.Wait()
	return all
}

func (o *Oblig) ok() bool {
	if o.Expect == "sat" {
		return o.Status == "sat"
	}
	return o.Status == "unsat"
}
