package main

// Discharging obligations: z3-new first, then a race of z3 4.8 / z3 5.1 / cvc5.

import (
	"bytes"
	"context"
	"fmt"
	"os"
	"os/exec"
	"path/filepath"
	"strings"
	"sync"
	"time"
)

type SolverCfg struct {
	FirstTimeout time.Duration
	FullTimeout  time.Duration
	Confirm      bool // thorough: require a second solver to agree on unsat
	WorkDir      string
	Workers      int
	Known        map[string][]KnownFinding
	Keep         bool
	NoBatch      bool
	NoSolve      bool
}

type Job struct {
	O     *Oblig // template obligation
	Inst  *Oblig // instance (with split) that receives the result
	Unit  *Unit
	Extra []Term
}

var solverBins = []struct{ name, bin string }{
	{"z3-5.1.0", "z3-new"},
	{"z3-4.8.12", "z3"},
	{"cvc5-1.0", "cvc5"},
}

func solverArgs(name string, timeout time.Duration, file string) []string {
	ms := int(timeout / time.Millisecond)
	switch {
	case strings.HasPrefix(name, "z3"):
		return []string{fmt.Sprintf("-t:%d", ms), file}
	default:
		return []string{"--tlimit", fmt.Sprint(ms), "--produce-models", file}
	}
}

type solveResult struct {
	status string // unsat sat unknown timeout error
	solver string
	secs   float64
	out    string
}

func runSolver(ctx context.Context, name, bin string, timeout time.Duration, file string) solveResult {
	start := time.Now()
	cctx, cancel := context.WithTimeout(ctx, timeout+2*time.Second)
	defer cancel()
	cmd := exec.CommandContext(cctx, bin, solverArgs(name, timeout, file)...)
	var out bytes.Buffer
	cmd.Stdout = &out
	cmd.Stderr = &out
	_ = cmd.Run()
	secs := time.Since(start).Seconds()
	text := out.String()
	first := strings.TrimSpace(strings.SplitN(text, "\n", 2)[0])
	st := "error"
	switch first {
	case "unsat", "sat", "unknown":
		st = first
	case "timeout":
		st = "timeout"
	}
	if st == "error" && cctx.Err() != nil {
		st = "timeout"
	}
	if st == "unknown" && secs >= timeout.Seconds()*0.9 {
		st = "timeout"
	}
	return solveResult{st, name, secs, text}
}

var winnerMu sync.Mutex
var winner = map[string]int{} // obligation base key -> index into solverBins of the solver that decided it last

func fileFor(i int, z3file, cvcfile string) string {
	if strings.HasPrefix(solverBins[i].name, "cvc5") {
		return cvcfile
	}
	return z3file
}

// confirmSat: a `sat` answer is accepted only when another solver agrees or no other solver can
// decide the query (cvc5 1.0 was seen to answer sat on a query it refutes once its own model is
// pinned; a spurious counterexample must not become an alarm).  Majority of the three decides.
func confirmSat(cfg *SolverCfg, r solveResult, z3file, cvcfile string) solveResult {
	if r.status != "sat" {
		return r
	}
	type res struct{ r solveResult }
	ch := make(chan solveResult, len(solverBins))
	n := 0
	for i, s := range solverBins {
		if s.name == r.solver {
			continue
		}
		n++
		i, s := i, s
		go func() { ch <- runSolver(context.Background(), s.name, s.bin, cfg.FullTimeout, fileFor(i, z3file, cvcfile)) }()
	}
	sat, unsat := 1, 0
	var notes []string
	for k := 0; k < n; k++ {
		x := <-ch
		notes = append(notes, x.solver+": "+x.status)
		switch x.status {
		case "sat":
			sat++
		case "unsat":
			unsat++
		}
		r.secs += x.secs
	}
	r.out += "\n--- cross-check of the sat answer: " + strings.Join(notes, ", ")
	switch {
	case unsat == 0 || sat > unsat:
		return r
	case unsat > sat:
		r.status = "unsat"
		r.solver = "majority(" + strings.Join(notes, ", ") + "; " + r.solver + " answered sat)"
		return r
	}
	r.status = "disagree"
	return r
}

func solveFile(cfg *SolverCfg, key, z3file, cvcfile string) solveResult {
	return confirmSat(cfg, solveFile0(cfg, key, z3file, cvcfile), z3file, cvcfile)
}

func solveFile0(cfg *SolverCfg, key, z3file, cvcfile string) solveResult {
	// stage 0: the solver that decided the previous instance of the same obligation, alone
	winnerMu.Lock()
	wi, have := winner[key]
	winnerMu.Unlock()
	if have {
		r0 := runSolver(context.Background(), solverBins[wi].name, solverBins[wi].bin, cfg.FirstTimeout, fileFor(wi, z3file, cvcfile))
		if r0.status == "unsat" || r0.status == "sat" {
			return r0
		}
	}
	r := solveFileRace(cfg, z3file, cvcfile)
	if r.status == "unsat" || r.status == "sat" {
		for i, s := range solverBins {
			if s.name == r.solver {
				winnerMu.Lock()
				winner[key] = i
				winnerMu.Unlock()
			}
		}
	}
	return r
}

func solveFileRace(cfg *SolverCfg, z3file, cvcfile string) solveResult {
	return solveFileRaceCtx(context.Background(), cfg, z3file, cvcfile)
}

func solveFileRaceCtx(parent context.Context, cfg *SolverCfg, z3file, cvcfile string) solveResult {
	// stage 1: z3-new and cvc5 raced with the short timeout (each decides goals the other does not)
	var r solveResult
	{
		ctx1, cancel1 := context.WithCancel(parent)
		ch1 := make(chan solveResult, 3)
		go func() { ch1 <- runSolver(ctx1, solverBins[0].name, solverBins[0].bin, cfg.FirstTimeout, z3file) }()
		go func() { ch1 <- runSolver(ctx1, solverBins[1].name, solverBins[1].bin, cfg.FirstTimeout, z3file) }()
		go func() { ch1 <- runSolver(ctx1, solverBins[2].name, solverBins[2].bin, cfg.FirstTimeout, cvcfile) }()
		for i := 0; i < 3; i++ {
			x := <-ch1
			if x.status == "unsat" || x.status == "sat" {
				cancel1()
				return x
			}
			if i == 0 || x.status != "error" {
				r = x
			}
		}
		cancel1()
	}
	// stage 2: race
	if parent.Err() != nil {
		return r
	}
	ctx, cancel := context.WithCancel(parent)
	defer cancel()
	ch := make(chan solveResult, len(solverBins))
	for _, s := range solverBins {
		s := s
		f := z3file
		if strings.HasPrefix(s.name, "cvc5") {
			f = cvcfile
		}
		go func() { ch <- runSolver(ctx, s.name, s.bin, cfg.FullTimeout, f) }()
	}
	var last solveResult = r
	total := r.secs
	for i := 0; i < len(solverBins); i++ {
		x := <-ch
		if x.status == "unsat" || x.status == "sat" {
			x.secs += total
			return x
		}
		if x.status != "error" || last.status == "error" {
			last = x
		}
	}
	last.secs += total
	return last
}

// Task: one unit instance to generate and discharge
type Task struct {
	Ct     *Contract
	Subst  map[string]int64
	Suffix string
	Keep   []string // if non-nil: only explicit obligations with these clause labels (split instances)
	Drop   []string // explicit obligations with these labels are left to the split instances
	ExhaustOnly  bool
	PropOverride string // the unit is run for this property through a `property X for labels` clause
}

type textJob struct {
	inst   *Oblig
	zf, cf string
	key    string
	full   string // file with the unfiltered query ("" when nothing was filtered)
}

// expandJobs turns the obligations of a unit into solver jobs (case splits by hypothesis,
// known-finding carve-outs)
func expandJobs(cfg *SolverCfg, u *Unit) []*Oblig {
	var out []*Oblig
	add := func(inst *Oblig) {
		ks := cfg.Known[baseKey(inst.Name)]
		if len(ks) == 0 {
			out = append(out, inst)
			return
		}
		c := u.Ctx
		whole := false
		var outside []Term
		for i := range ks {
			k := &ks[i]
			in := *inst
			in.KnownInside = k
			in.Name = inst.Name + "{known:" + fmt.Sprint(i) + "}"
			if k.CarveOut == "" {
				whole = true
			} else {
				t := u.Carve[k.CarveOut]
				in.Extra = append(append([]Term{}, inst.Extra...), t)
				outside = append(outside, c.not(t))
			}
			out = append(out, &in)
		}
		if !whole {
			o2 := *inst
			o2.Extra = append(append([]Term{}, inst.Extra...), outside...)
			out = append(out, &o2)
		}
	}
	for _, o := range u.Obligs {
		if o.Kind == "vacuity" || o.Kind == "split-exhaustive" {
			add(o)
			continue
		}
		// product of the unrestricted hypothesis splits, refined by the splits restricted to this clause
		combos := u.Splits
		names := u.SplitNm
		if len(combos) == 0 {
			combos, names = [][]Term{nil}, []string{""}
		}
		for _, hs := range u.HSplits {
			if len(hs.For) == 0 || !(o.Kind == "ensures" || o.Kind == "assert") {
				continue
			}
			applies := false
			for _, l := range hs.For {
				if l == o.Label {
					applies = true
				}
			}
			if !applies {
				continue
			}
			var nc [][]Term
			var nn []string
			for i, base := range combos {
				for k, eq := range hs.Eqs {
					nc = append(nc, append(append([]Term{}, base...), eq))
					nn = append(nn, names[i]+hs.Names[k])
				}
			}
			combos, names = nc, nn
		}
		if len(combos) == 1 && len(combos[0]) == 0 {
			add(o)
			continue
		}
		for i, sp := range combos {
			inst := *o
			inst.Name = o.Name + names[i]
			inst.Extra = sp
			add(&inst)
		}
	}
	return out
}

// runPipeline generates the VCs of all tasks (in parallel) and discharges them (in parallel),
// streaming: a unit's context is dropped as soon as its queries are written.
func (p *Program) runPipeline(cfg *SolverCfg, tasks []Task) ([]*Oblig, []*Unit) {
	os.MkdirAll(cfg.WorkDir, 0o755)
	var mu sync.Mutex
	var all []*Oblig
	var units []*Unit
	taskCh := make(chan int, len(tasks))
	for i := range tasks {
		taskCh <- i
	}
	close(taskCh)
	jobCh := make(chan textJob, 256)
	var genWG, solveWG sync.WaitGroup
	var seq int64
	gens := cfg.Workers / 2
	if gens < 1 {
		gens = 1
	}
	for g := 0; g < gens; g++ {
		genWG.Add(1)
		go func() {
			defer genWG.Done()
			for ti := range taskCh {
				t := tasks[ti]
				u := p.verifyUnit(t.Ct, t.Subst, t.Suffix, t.ExhaustOnly)
				u.filter(t.Keep, t.Drop)
				insts := expandJobs(cfg, u)
				var tj []textJob
				for _, in := range insts {
					mu.Lock()
					seq++
					n := seq
					mu.Unlock()
					text, full := u.Ctx.emitBoth(in)
					in.SMTBytes = len(text)
					zf := filepath.Join(cfg.WorkDir, fmt.Sprintf("o%d.smt2", n))
					cf := filepath.Join(cfg.WorkDir, fmt.Sprintf("o%d.cvc5.smt2", n))
					os.WriteFile(zf, []byte(text), 0o644)
					os.WriteFile(cf, []byte(strings.Replace(text, "(set-option :produce-models true)\n", "(set-option :produce-models true)\n(set-logic ALL)\n", 1)), 0o644)
					in.SMTFile = zf
					ff := ""
					if full != "" && in.Expect == "" {
						ff = filepath.Join(cfg.WorkDir, fmt.Sprintf("o%d.full.smt2", n))
						os.WriteFile(ff, []byte(full), 0o644)
					}
					tj = append(tj, textJob{in, zf, cf, baseKey(in.Name), ff})
				}
				u.NObl = len(insts)
				u.Ctx = nil // release the definitions
				u.Obligs = nil
				mu.Lock()
				all = append(all, insts...)
				units = append(units, u)
				mu.Unlock()
				for _, j := range tj {
					jobCh <- j
				}
			}
		}()
	}
	solveOne := func(j textJob, c *SolverCfg, race bool) {
		var r solveResult
		if c.NoSolve {
			j.inst.Status = "unsat"
			return
		}
		fullFile := j.full
		if j.inst.Expect != "" {
			fullFile = ""
		}
		switch {
		case j.inst.Expect == "sat":
			r = runSolver(context.Background(), solverBins[0].name, solverBins[0].bin, c.FirstTimeout, j.zf)
		case fullFile != "":
			// the relevance filter dropped definitions: the filtered and the complete query are
			// decided side by side; only the complete one can refute the obligation
			fc := fullFile + ".cvc5.smt2"
			data, _ := os.ReadFile(fullFile)
			os.WriteFile(fc, []byte(strings.Replace(string(data), "(set-option :produce-models true)\n", "(set-option :produce-models true)\n(set-logic ALL)\n", 1)), 0o644)
			ch := make(chan solveResult, 2)
			pctx, pcancel := context.WithCancel(context.Background())
			go func() {
				x := solveFileRaceCtx(pctx, c, j.zf, j.cf)
				x.out = "[filtered] " + x.out
				ch <- x
			}()
			go func() {
				x := solveFileRaceCtx(pctx, c, fullFile, fc)
				if pctx.Err() == nil {
					x = confirmSat(c, x, fullFile, fc)
				}
				x.solver += "(full)"
				ch <- x
			}()
			for k := 0; k < 2; k++ {
				x := <-ch
				filtered := strings.HasPrefix(x.out, "[filtered] ")
				if x.status == "unsat" {
					r = x
					break
				}
				if !filtered {
					r = x // the complete query decides (sat / undecided)
					if x.status == "sat" || x.status == "disagree" {
						break
					}
				}
			}
			pcancel()
			os.Remove(fc)
			if strings.HasSuffix(r.solver, "(full)") {
				j.inst.SMTFile = fullFile
			}
		case race:
			r = confirmSat(c, solveFileRace(c, j.zf, j.cf), j.zf, j.cf)
		default:
			r = solveFile(c, j.key, j.zf, j.cf)
		}
		if c.Confirm && r.status == "unsat" && j.inst.Expect == "" {
			// thorough tier: the other two solvers are asked at the same time; the first `unsat`
			// confirms (the other run is cancelled); a `sat` counts only if nobody else sides
			// with `unsat` (cvc5 1.0 has answered sat wrongly before: two against one decides)
			type conf struct {
				name string
				res  solveResult
			}
			ctx, cancel := context.WithCancel(context.Background())
			ch := make(chan conf, len(solverBins))
			n := 0
			var tmp []string
			for _, s := range solverBins {
				if strings.HasPrefix(r.solver, s.name) {
					continue
				}
				f := j.zf
				if strings.HasSuffix(r.solver, "(full)") {
					f = fullFile
				}
				if strings.HasPrefix(s.name, "cvc5") {
					f2 := f + ".c.smt2"
					data, _ := os.ReadFile(f)
					os.WriteFile(f2, []byte(strings.Replace(string(data), "(set-option :produce-models true)\n", "(set-option :produce-models true)\n(set-logic ALL)\n", 1)), 0o644)
					f = f2
					tmp = append(tmp, f2)
				}
				n++
				go func(name, bin, file string) {
					ch <- conf{name, runSolver(ctx, name, bin, c.FullTimeout, file)}
				}(s.name, s.bin, f)
			}
			satBy, satOut, confirmed := "", "", false
			for k := 0; k < n; k++ {
				cr := <-ch
				if cr.res.status == "unsat" && !confirmed {
					r.solver += "+" + cr.name
					confirmed = true
					cancel()
				} else if cr.res.status == "sat" && !confirmed {
					satBy, satOut = cr.name, cr.res.out
				}
			}
			cancel()
			for _, f2 := range tmp {
				os.Remove(f2)
			}
			if satBy != "" && !confirmed {
				r.status = "disagree"
				r.out += "\n--- " + satBy + " says sat:\n" + satOut
			} else if satBy != "" {
				r.out += "\n--- note: " + satBy + " answered sat on this query; two other solvers prove it"
			}
		}
		j.inst.Status, j.inst.Solver, j.inst.Output = r.status, r.solver, r.out
		j.inst.Secs += r.secs
	}
	var undecided []textJob
	for w := 0; w < cfg.Workers; w++ {
		solveWG.Add(1)
		go func() {
			defer solveWG.Done()
			for j := range jobCh {
				solveOne(j, cfg, false)
				if j.inst.Expect == "" && (j.inst.Status == "timeout" || j.inst.Status == "unknown" || j.inst.Status == "error") {
					mu.Lock()
					undecided = append(undecided, j)
					mu.Unlock()
					continue
				}
				os.Remove(j.cf)
				if j.inst.ok() && !cfg.Keep {
					os.Remove(j.zf)
					if j.full != "" {
						os.Remove(j.full)
					}
				}
			}
		}()
	}
	genWG.Wait()
	close(jobCh)
	solveWG.Wait()
	// retry phase: undecided obligations once more with little else running (a loaded machine
	// must not turn into an alarm)
	if len(undecided) > 0 {
		ch2 := make(chan textJob, len(undecided))
		for _, j := range undecided {
			ch2 <- j
		}
		close(ch2)
		var wg2 sync.WaitGroup
		big := *cfg
		big.FullTimeout = 4 * cfg.FullTimeout
		for w := 0; w < 4; w++ {
			wg2.Add(1)
			go func() {
				defer wg2.Done()
				for j := range ch2 {
					solveOne(j, &big, true)
					j.inst.Retried = true
					os.Remove(j.cf)
					if j.inst.ok() && !cfg.Keep {
						os.Remove(j.zf)
					}
				}
			}()
		}
		wg2.Wait()
	}
	return all, units
}

// filter keeps / drops explicit obligations by clause label (per-clause case splits)
func (u *Unit) filter(keep, drop []string) {
	if keep == nil && drop == nil {
		return
	}
	has := func(l []string, x string) bool {
		for _, y := range l {
			if y == x {
				return true
			}
		}
		return false
	}
	var out []*Oblig
	for _, o := range u.Obligs {
		lab := o.Label
		if keep != nil {
			if has(keep, lab) && (o.Kind == "ensures" || o.Kind == "assert") {
				out = append(out, o)
			}
			continue
		}
		if has(drop, lab) && (o.Kind == "ensures" || o.Kind == "assert") {
			continue
		}
		out = append(out, o)
	}
	u.Obligs = out
}

func (o *Oblig) ok() bool {
	if o.Expect == "sat" {
		// vacuity guards: the hypotheses must not be refutable (a model is the best outcome;
		// unknown/timeout means "not refuted", which is what the guard is for)
		return o.Status == "sat" || o.Status == "unknown" || o.Status == "timeout"
	}
	return o.Status == "unsat"
}
