package main

// Calls: callee contracts (assert requires / havoc assigns / assume ensures), inlining of
// small repo functions, builtins, and the allowlist for library calls.

import (
	"fmt"
	"go/ast"
	"go/token"
	"go/types"
	"sort"
	"strings"

	"golang.org/x/tools/go/ssa"
)

func funcKey(fn *ssa.Function) string {
	if fn == nil {
		return "?"
	}
	name := fn.Name()
	if fn.Signature != nil {
		if recv := fn.Signature.Recv(); recv != nil {
			t := recv.Type()
			ptr := ""
			if p, ok := t.(*types.Pointer); ok {
				ptr = "*"
				t = p.Elem()
			}
			if nt, ok := t.(*types.Named); ok {
				return "(" + ptr + nt.Obj().Name() + ")." + name
			}
		}
	}
	return name
}

func fullKey(fn *ssa.Function) string {
	if fn == nil || fn.Pkg == nil {
		if fn != nil && fn.Parent() != nil {
			return fullKey(fn.Parent()) + "$" + fn.Name()
		}
		return funcKey(fn)
	}
	return shortPkg(fn.Pkg.Pkg.Path()) + "." + funcKey(fn)
}

func inRepo(fn *ssa.Function) bool {
	return fn != nil && fn.Pkg != nil && strings.HasPrefix(fn.Pkg.Pkg.Path(), "github.com/frankkopp/FrankyGo/")
}

func (e *Exec) call(fr *frame, x *ssa.Call, reach Term, st *State) Term {
	c := e.c
	cc := x.Call
	setResult := func(res []Val) {
		switch len(res) {
		case 0:
		case 1:
			st.env[x] = res[0]
		default:
			st.env[x] = Val{Typ: x.Type(), Tuple: res}
		}
	}
	havocResult := func(hint string) {
		if tup, ok := x.Type().(*types.Tuple); ok {
			if tup.Len() == 0 {
				return
			}
			var tv Val
			tv.Typ = tup
			for i := 0; i < tup.Len(); i++ {
				tv.Tuple = append(tv.Tuple, c.freshVal(tup.At(i).Type(), hint))
			}
			st.env[x] = tv
			return
		}
		st.env[x] = c.freshVal(x.Type(), hint)
	}
	if cc.IsInvoke() {
		e.trusted[fmt.Sprintf("interface method call %s.%s: result arbitrary, no effect on modelled state", cc.Value.Type(), cc.Method.Name())] = true
		if !e.abstractOK(fr) {
			e.fail("dynamic interface call %s at %s", cc.Method.Name(), e.posStr(x.Pos()))
		}
		havocResult("invoke")
		return reach
	}
	if b, ok := cc.Value.(*ssa.Builtin); ok {
		return e.builtin(fr, x, b, reach, st, setResult)
	}
	fn := cc.StaticCallee()
	if fn == nil {
		// call of a function value
		fv := e.value(st, cc.Value)
		if fv.Fn != nil {
			fn = fv.Fn
		} else {
			if !e.abstractOK(fr) {
				e.fail("call of a dynamic function value at %s", e.posStr(x.Pos()))
			}
			e.trusted["dynamic function value call: result arbitrary, no effect on modelled state"] = true
			havocResult("dyncall")
			e.dynamicCallAnchors(fr, st)
			return reach
		}
	}
	var args []Val
	for _, a := range cc.Args {
		args = append(args, e.value(st, a))
	}
	res, r2 := e.callStatic(fr, fn, args, reach, st, x.Pos())
	// anchors: ghost updates / asserts after a call
	setResult(res)
	e.afterCallAnchors(fr, fn, x, r2, st, res, args)
	return r2
}

func (e *Exec) abstractOK(fr *frame) bool {
	if e.abstractAll {
		return true // the unit is marked abstract: also inside the callees it executes inline
	}
	if fr != nil && fr.spec != nil && fr.spec.Abstract {
		return true
	}
	if fr != nil {
		if ct := e.prog.contractOf(fr.fi.Fn); ct != nil && ct.Abstract {
			return true
		}
	}
	return false
}

// callStatic performs a call of a known function; updates st.cells in place.
func (e *Exec) callStatic(fr *frame, fn *ssa.Function, args []Val, reach Term, st *State, pos token.Pos) ([]Val, Term) {
	c := e.c
	ct := e.prog.contractOf(fn)
	if e.pureCalls[fullKey(fn)] {
		// the callee as an uninterpreted function of its arguments: its contract must say that
		// it changes nothing; the preconditions are still obligations, the postconditions unused
		if ct == nil || !ct.HasAssigns || len(ct.Assigns) != 0 {
			e.fail("purecalls: %s needs a contract with `assigns nothing`", fullKey(fn))
		}
		env := &SpecEnv{e: e, pkg: fn.Pkg.Pkg, params: paramEnv(fn, args), cells: st.cells, old: st.cells}
		for i, r := range ct.Requires {
			g := e.evalSpecBool(r, env, nil, nil)
			label := r.Label
			if label == "" {
				label = fmt.Sprintf("%d", i)
			}
			e.oblige("requires@"+fullKey(fn), label, reach, g, pos)
			c.assume(c.implies(reach, g), "")
		}
		var ats []Term
		var sorts []string
		for _, a := range args {
			for _, t := range a.L {
				ats = append(ats, t)
				sorts = append(sorts, t.Sort.String())
			}
		}
		var res []Val
		rs := fn.Signature.Results()
		for i := 0; i < rs.Len(); i++ {
			v := Val{Typ: rs.At(i).Type()}
			for li, l := range leavesOf(rs.At(i).Type()) {
				name := fmt.Sprintf("call_%s_%d_%d", sanitize(fullKey(fn)), i, li)
				c.declareFun(name, sorts, l.Sort)
				v.L = append(v.L, c.app(l.Sort, name, ats...))
			}
			res = append(res, v)
		}
		e.trusted["call of "+fullKey(fn)+" abstracted to an uninterpreted function of its arguments (its contract says it assigns nothing)"] = true
		e.pureCallFacts(ct, fn, args, res, st.cells)
		return res, reach
	}
	if ct != nil && !ct.Inline && !e.inlines[fullKey(fn)] {
		return e.applyContract(ct, fn, args, reach, st, pos)
	}
	if !inRepo(fn) || len(fn.Blocks) == 0 {
		return e.libraryCall(fn, args, reach, st, pos)
	}
	// inline
	for _, f := range e.curFn {
		if f == fn {
			e.fail("recursive call of %s needs a contract", fn.Name())
		}
	}
	rets := e.runFunc(fn, args, st.cells, reach, ct)
	if len(rets) == 0 {
		return nil, tFalse
	}
	// merge return edges
	var conds []Term
	for _, r := range rets {
		conds = append(conds, r.Cond)
	}
	nreach := c.or(conds...)
	keys := map[string]bool{}
	for _, r := range rets {
		for k := range r.St.cells {
			keys[k] = true
		}
	}
	merged := map[string]Term{}
	for k := range keys {
		if strings.HasPrefix(k, "l:"+sanitize(e.fnShort(fn))+".") {
			continue // callee locals die
		}
		var cur Term
		first := true
		for i := len(rets) - 1; i >= 0; i-- {
			t, ok := rets[i].St.cells[k]
			if !ok {
				if t0, ok0 := c.initial[k]; ok0 {
					t = t0
				} else {
					for _, r2 := range rets {
						if t2, ok2 := r2.St.cells[k]; ok2 {
							if strings.HasPrefix(k, "l:") {
								t = c.zero(t2.Sort)
							} else {
								t = c.initialCell(k, t2.Sort)
							}
							break
						}
					}
				}
			}
			if first {
				cur = t
				first = false
			} else {
				cur = c.ite(rets[i].Cond, t, cur)
			}
		}
		merged[k] = cur
	}
	st.cells = merged
	nres := len(rets[0].Res)
	out := make([]Val, nres)
	for j := 0; j < nres; j++ {
		cur := rets[len(rets)-1].Res[j]
		for i := len(rets) - 2; i >= 0; i-- {
			if !valEqual(rets[i].Res[j], cur) {
				cur = c.iteVal(rets[i].Cond, rets[i].Res[j], cur)
			}
		}
		out[j] = cur
	}
	return out, nreach
}

func (e *Exec) selfInline(fn *ssa.Function) bool { return false }

// pureCallFacts: the postconditions of the contract hold for the uninterpreted application that
// stands for a pure call (added as definitional facts of that application)
func (e *Exec) pureCallFacts(ct *Contract, fn *ssa.Function, args []Val, res []Val, cells map[string]Term) {
	if ct == nil || len(ct.Ensures) == 0 || len(res) == 0 || len(res[0].L) == 0 || !e.pureFacts[fullKey(fn)] {
		return
	}
	c := e.c
	key := res[0].L[0].S
	if c.pureFactsDone == nil {
		c.pureFactsDone = map[string]bool{}
	}
	if c.pureFactsDone[key] {
		return
	}
	c.pureFactsDone[key] = true
	env := &SpecEnv{e: e, pkg: fn.Pkg.Pkg, params: paramEnv(fn, args), cells: cells, old: cells, result: res}
	var pre []Term
	for _, r := range ct.Requires {
		pre = append(pre, e.evalSpecBool(r, env, nil, nil))
	}
	name := "call_" + sanitize(fullKey(fn))
	for _, en := range ct.Ensures {
		g := e.evalSpecBool(en, env, nil, nil)
		for _, t := range res[0].L {
			c.symOfConst[t.S] = name
		}
		c.axiom(key, name, c.implies(c.and(pre...), g))
		c.axioms[len(c.axioms)-1].PerApp = true
	}
}

// paramEnv binds callee parameter names to argument values
func paramEnv(fn *ssa.Function, args []Val) map[string]Val {
	m := map[string]Val{}
	for i, p := range fn.Params {
		if i < len(args) {
			m[p.Name()] = args[i]
		}
	}
	return m
}

func (e *Exec) applyContract(ct *Contract, fn *ssa.Function, args []Val, reach Term, st *State, pos token.Pos) ([]Val, Term) {
	c := e.c
	pre := cloneCells(st.cells)
	env := &SpecEnv{e: e, pkg: fn.Pkg.Pkg, params: paramEnv(fn, args), cells: pre, old: pre}
	// pointers passed to a contract must be objects (or be handled structurally by the spec evaluator)
	for i, r := range ct.Requires {
		g := e.evalSpecBool(r, env, nil, nil)
		label := r.Label
		if label == "" {
			label = fmt.Sprintf("%d", i)
		}
		if !e.assumeCalls {
			e.oblige("requires@"+fullKey(fn), label, reach, g, pos)
		}
		c.assume(c.implies(reach, g), "")
	}
	// havoc the frame
	for _, a := range ct.Assigns {
		e.havocLoc(a, env, st.cells, fn)
	}
	// results
	var res []Val
	rs := fn.Signature.Results()
	for i := 0; i < rs.Len(); i++ {
		res = append(res, c.freshVal(rs.At(i).Type(), "res_"+fn.Name()))
	}
	post := &SpecEnv{e: e, pkg: fn.Pkg.Pkg, params: paramEnv(fn, args), cells: st.cells, old: pre, result: res}
	// an ensures clause of the form `result == E` defines the result: the term E is used for it
	// (a definition enters a query only when it is needed, an assumption always)
	defined := map[int]bool{}
	if len(res) == 1 && len(res[0].L) == 1 {
		for i, en := range ct.Ensures {
			be, ok := en.E.(*ast.BinaryExpr)
			if !ok || be.Op != token.EQL || ct.mentionsGhost(en.Src) {
				continue
			}
			if id, ok := be.X.(*ast.Ident); !ok || id.Name != "result" {
				continue
			}
			noRes := *post
			noRes.result = nil
			ok2 := true
			var v Val
			func() {
				defer func() {
					if r := recover(); r != nil {
						if _, isU := r.(unsupported); isU {
							ok2 = false
							return
						}
						panic(r)
					}
				}()
				v = noRes.typed(e.evalSpec(SpecExpr{Src: en.Src, E: be.Y, Line: en.Line}, &noRes), res[0].Typ)
			}()
			if ok2 && len(v.L) == 1 && v.T().Sort.Eq(res[0].T().Sort) {
				res[0] = scalar(res[0].Typ, v.T())
				post.result = res
				defined[i] = true
				break
			}
		}
	}
	for i, en := range ct.Ensures {
		if defined[i] || ct.mentionsGhost(en.Src) {
			// a clause over the callee's own ghost variables is bookkeeping of the callee's unit:
			// proved there, meaningless (and not assumed) at a call site
			continue
		}
		g := e.evalSpecBool(en, post, nil, nil)
		c.assume(c.implies(reach, g), "ensures of "+fn.Name())
	}
	if ct.Trusted {
		e.trusted["trusted contract: "+fullKey(fn)] = true
	}
	e.prog.mu.Lock()
	e.prog.usedContracts[fullKey(fn)] = true
	e.prog.mu.Unlock()
	return res, reach
}

// havocLoc havocs the location denoted by an assigns entry
func (e *Exec) havocLoc(src string, env *SpecEnv, cells map[string]Term, fn *ssa.Function) {
	c := e.c
	sub := *env
	sub.cells = cells
	tgs := e.assignTargets(src, &sub)
	if len(tgs) > 0 && tgs[0].addr != nil {
		// a location with an address: havoc exactly that component
		c.storeAt(cells, tgs[0].addr, c.freshVal(tgs[0].typ, "havoc"))
		return
	}
	for _, tg := range tgs {
		if !tg.heap && tg.addr == nil {
			// a whole heap class (anyelems): every array of this element type becomes arbitrary
			if cur, ok := cells[tg.key]; ok {
				cells[tg.key] = c.fresh(cur.Sort, "havoc")
			} else if cur, ok := c.initial[tg.key]; ok {
				cells[tg.key] = c.fresh(cur.Sort, "havoc")
			}
			continue
		}
		// slice elements: the backing array object of this slice becomes arbitrary
		cur, ok := cells[tg.key]
		if !ok {
			cur, ok = c.initial[tg.key]
			if !ok {
				continue // never read or written in this unit: nothing depends on it
			}
		}
		cells[tg.key] = c.store(cur, tg.ref, c.fresh(cur.Sort.Elem, "havoc"))
	}
}

// libraryCall: functions outside the repository (or without body): result arbitrary, no
// modelled state changes; a few carry built-in postconditions.
func (e *Exec) libraryCall(fn *ssa.Function, args []Val, reach Term, st *State, pos token.Pos) ([]Val, Term) {
	c := e.c
	name := fn.String()
	var res []Val
	rs := fn.Signature.Results()
	for i := 0; i < rs.Len(); i++ {
		res = append(res, c.freshVal(rs.At(i).Type(), "lib_"+fn.Name()))
	}
	e.prog.mu.Lock()
	e.prog.libCalls[name] = true
	e.prog.mu.Unlock()
	if !libReadOnly(name) {
		// a pointer handed to a library function may be written through: the pointee becomes
		// arbitrary (e.g. gob Decode(&b.bookMap), Sscanf(&x))
		var visit func(v Val, depth int)
		visit = func(v Val, depth int) {
			if depth > 3 {
				return
			}
			if v.Boxed != nil {
				visit(*v.Boxed, depth+1)
			}
			if v.Typ == nil {
				return
			}
			if pt, ok := v.Typ.Underlying().(*types.Pointer); ok && len(v.L) == 1 {
				if _, isNamedLib := pt.Elem().(*types.Named); isNamedLib && !strings.Contains(pt.Elem().String(), "FrankyGo") {
					return // pointer to a library object (receiver, *os.File, ...): not modelled
				}
				if v.Addr != nil && v.Addr.Kind >= 0 {
					c.storeAt(st.cells, v.Addr, c.freshVal(typeAt(v.Addr.Typ, v.Addr.Path), "libwrite"))
				} else if v.Addr == nil && isNilLit(v) {
				} else if v.Addr == nil {
					a := e.addrOfPtr(v)
					defer func() { recover() }()
					c.storeAt(st.cells, a, c.freshVal(pt.Elem(), "libwrite"))
				}
			}
		}
		for _, a := range args {
			visit(a, 0)
		}
	}
	switch name {
	case "(*sync.Mutex).Lock", "(*sync.Mutex).Unlock", "(*sync.RWMutex).Lock", "(*sync.RWMutex).Unlock":
		// ghost state: whether this goroutine holds the lock.  Locking a lock that is already held
		// by the caller blocks forever; unlocking a lock that is not held panics.
		key, ok := lockKey(args[0])
		if !ok {
			e.fail("mutex without a structural address at %s", e.posStr(pos))
		}
		cur := c.cell(st.cells, key, sortBool)
		if strings.HasSuffix(name, ".Lock") {
			e.oblige("lock", "not-held:"+cellName(key), reach, c.not(cur), pos)
			c.assume(c.implies(reach, c.not(cur)), "")
			st.cells[key] = c.ite(reach, tTrue, cur)
		} else {
			e.oblige("lock", "held:"+cellName(key), reach, cur, pos)
			c.assume(c.implies(reach, cur), "")
			st.cells[key] = c.ite(reach, tFalse, cur)
		}
		e.trusted["sync.Mutex modelled by a ghost flag per lock (held by this goroutine or not); other goroutines are not modelled"] = true
		return res, reach
	case "errors.New", "fmt.Errorf":
		c.assume(c.implies(reach, c.not(c.eq(res[0].T(), Term{"nil_iface", sortIface}))), "errors.New != nil")
	case "(*regexp.Regexp).MatchString":
		// facts about the strings a few fixed patterns match (the pattern is read from the
		// regexp.MustCompile call in package initialisation; the variable is checked frozen)
		if pat, ok := e.prog.regexPatterns[args[0].Global]; ok {
			s := args[1].T()
			ln := c.app(bvSort(64), "strlen", s)
			at := func(i int64) Term { return c.app(bvSort(8), "strat", s, bvLitI(64, i)) }
			rng := func(t Term, lo, hi byte) Term {
				return c.and(c.app(sortBool, "bvuge", t, bvLitI(8, int64(lo))), c.app(sortBool, "bvule", t, bvLitI(8, int64(hi))))
			}
			var fact Term
			switch pat {
			case "^([a-h][1-8]|-)$":
				fact = c.or(c.and(c.eq(ln, bvLitI(64, 1)), c.eq(at(0), bvLitI(8, '-'))), c.and(c.eq(ln, bvLitI(64, 2)), rng(at(0), 'a', 'h'), rng(at(1), '1', '8')))
			case "^[w|b]$":
				fact = c.eq(ln, bvLitI(64, 1))
			case "^(K?Q?k?q?|-)$":
				fact = c.app(sortBool, "bvule", ln, bvLitI(64, 4))
			}
			if fact.S != "" {
				c.assume(c.implies(c.and(reach, res[0].T()), fact), "regexp "+pat)
				e.trusted["a string matched by the regular expression "+pat+" has the corresponding shape (fact about this pattern, assumed)"] = true
				e.prog.mu.Lock()
				e.prog.usedGround[strings.TrimPrefix(args[0].Global, "g:")] = true
				e.prog.mu.Unlock()
			}
		}
	case "strconv.ParseInt", "strconv.ParseUint", "strconv.ParseFloat", "strconv.ParseBool":
		// the empty string is not a number (library contract)
		c.assume(c.implies(c.and(reach, c.eq(c.app(bvSort(64), "strlen", args[0].T()), bvLitI(64, 0))), c.not(c.eq(res[1].T(), Term{"nil_iface", sortIface}))), "strconv: empty string is an error")
		e.trusted["strconv.Atoi/ParseInt/... report an error for the empty string (library contract)"] = true
	case "strconv.Atoi":
		c.assume(c.implies(c.and(reach, c.eq(c.app(bvSort(64), "strlen", args[0].T()), bvLitI(64, 0))), c.not(c.eq(res[1].T(), Term{"nil_iface", sortIface}))), "strconv: empty string is an error")
		e.trusted["strconv.Atoi/ParseInt/... report an error for the empty string (library contract)"] = true
		// a one-rune string: a number exactly for the digits
		if d, ok := c.defIdx[args[0].T().S]; ok && strings.HasPrefix(d.Body, "(str_of_rune ") {
			r := Term{strings.TrimSuffix(strings.TrimPrefix(d.Body, "(str_of_rune "), ")"), bvSort(32)}
			okT := c.eq(res[1].T(), Term{"nil_iface", sortIface})
			digit := c.and(c.app(sortBool, "bvuge", r, bvLitI(32, '0')), c.app(sortBool, "bvule", r, bvLitI(32, '9')))
			val := c.app(bvSort(64), "bvsub", e.extend(r, 64, false), bvLitI(64, '0'))
			c.assume(c.implies(reach, c.and(c.eq(okT, digit), c.implies(okT, c.eq(res[0].T(), val)))), "strconv.Atoi of a one-rune string")
			e.trusted["strconv.Atoi(string(r)) succeeds exactly for '0'..'9' and returns r-'0' (library contract)"] = true
		}
	case "strings.Index":
		// first occurrence of a one-byte needle (library contract)
		hay, nd := args[0].T(), args[1].T()
		r := res[0].T()
		one := c.eq(c.app(bvSort(64), "strlen", nd), bvLitI(64, 1))
		ch := c.app(bvSort(8), "strat", nd, bvLitI(64, 0))
		found := c.and(c.app(sortBool, "bvsge", r, bvLitI(64, 0)), c.app(sortBool, "bvslt", r, c.app(bvSort(64), "strlen", hay)), c.eq(c.app(bvSort(8), "strat", hay, r), ch))
		c.assume(c.implies(c.and(reach, one), c.or(c.eq(r, bvLitI(64, -1)), found)), "strings.Index")
		// minimality and completeness for a literal haystack
		if hs, ok := strLitOf(c, hay); ok && len(hs) <= 64 {
			for j := 0; j < len(hs); j++ {
				hit := c.eq(bvLitI(8, int64(hs[j])), ch)
				// a hit at j: the result is found and not after j
				c.assume(c.implies(c.and(reach, one, hit), c.and(c.app(sortBool, "bvsge", r, bvLitI(64, 0)), c.app(sortBool, "bvsle", r, bvLitI(64, int64(j))))), "strings.Index first occurrence")
			}
		}
		e.trusted["strings.Index(s, b) for a one-byte b: -1 or the first index with s[i] == b (library contract)"] = true
	case "(*regexp.Regexp).Split":
		// with n != 0 the result has at least one element (library contract)
		c.assume(c.implies(reach, c.app(sortBool, "bvuge", res[0].L[2], bvLitI(64, 1))), "regexp Split returns >= 1 part")
		c.assume(c.implies(reach, c.app(sortBool, "bvule", res[0].L[2], res[0].L[3])), "")
		c.assume(c.implies(reach, c.app(sortBool, "bvult", res[0].L[3], bvLitI(64, 1<<40))), "")
		e.trusted["regexp.Split(s, -1) returns at least one element (library contract)"] = true
	case "strings.Split":
		// at least one part when the separator is non-empty
		c.assume(c.implies(reach, c.app(sortBool, "bvuge", res[0].L[2], bvLitI(64, 1))), "strings.Split returns >= 1 part")
		c.assume(c.implies(reach, c.app(sortBool, "bvule", res[0].L[2], res[0].L[3])), "")
		c.assume(c.implies(reach, c.app(sortBool, "bvult", res[0].L[3], bvLitI(64, 1<<40))), "")
	case "(time.Duration).Nanoseconds":
		return []Val{scalar(res[0].Typ, args[0].T())}, reach
	case "(time.Duration).Microseconds":
		return []Val{scalar(res[0].Typ, c.app(bvSort(64), "bvsdiv", args[0].T(), bvLitI(64, 1000)))}, reach
	case "(time.Duration).Milliseconds":
		return []Val{scalar(res[0].Typ, c.app(bvSort(64), "bvsdiv", args[0].T(), bvLitI(64, 1000000)))}, reach
	case "math.Floor":
		return []Val{scalar(res[0].Typ, c.def(sortFloat, fmt.Sprintf("(fp.roundToIntegral RTN %s)", args[0].T().S)))}, reach
	case "math.Log2":
		// trusted library contract: for 2^k <= x < 2^(k+1), k <= Log2(x) < k+1 (Go computes the
		// integer part exactly with Frexp); nothing else is assumed about the result
		r := res[0].T()
		x := args[0].T()
		for k := 0; k < 63; k++ {
			lo := floatLit(float64(uint64(1) << uint(k)))
			hi := floatLit(float64(uint64(1) << uint(k+1)))
			in := c.and(c.app(sortBool, "fp.leq", lo, x), c.app(sortBool, "fp.lt", x, hi))
			out := c.and(c.app(sortBool, "fp.leq", floatLit(float64(k)), r), c.app(sortBool, "fp.lt", r, floatLit(float64(k+1))))
			c.assume(c.implies(reach, c.implies(in, out)), "math.Log2 contract")
		}
		e.trusted["math.Log2(x) lies in [k, k+1) whenever 2^k <= x < 2^(k+1) (assumed library contract)"] = true
		return res, reach
	case "math/bits.OnesCount64":
		return []Val{scalar(res[0].Typ, e.popcount(args[0].T()))}, reach
	case "math/bits.TrailingZeros64":
		return []Val{scalar(res[0].Typ, e.ctz(args[0].T()))}, reach
	case "math/bits.LeadingZeros64":
		return []Val{scalar(res[0].Typ, e.clz(args[0].T()))}, reach
	case "math/bits.Reverse64", "math/bits.ReverseBytes64", "math/bits.RotateLeft64":
	}
	// generic sanity of returned slices / strings
	for _, r := range res {
		if _, ok := r.Typ.Underlying().(*types.Slice); ok {
			c.assume(c.implies(reach, c.and(c.app(sortBool, "bvule", r.L[2], r.L[3]), c.app(sortBool, "bvult", r.L[3], bvLitI(64, 1<<40)))), "")
		}
	}
	return res, reach
}

func strLitOf(c *Ctx, t Term) (string, bool) {
	name := t.S
	if d, ok := c.defIdx[name]; ok && d.Body != "" && isAtom(d.Body) {
		name = d.Body // a ground string variable: defined as the literal
	}
	for s, lt := range c.strLits {
		if lt.S == name {
			return s, true
		}
	}
	return "", false
}

// lockKey: the ghost cell of a mutex given the pointer to it
func lockKey(v Val) (string, bool) {
	if v.Addr == nil || v.Addr.Kind != RGlobal {
		return "", false
	}
	fp, idx := pathKey(v.Addr.Typ, v.Addr.Path)
	if len(idx) > 0 {
		return "", false
	}
	return "g:$lock." + strings.TrimPrefix(v.Addr.Key, "g:") + fp, true
}

// libReadOnly: library functions known not to write through their arguments
func libReadOnly(name string) bool {
	for _, p := range []string{"fmt.", "(*fmt.", "strconv.", "strings.", "(*strings.", "errors.", "math.", "math/bits.", "time.", "(time.", "(*github.com/op/go-logging.", "(*golang.org/x/text/message.Printer)", "regexp.", "(*regexp.", "os.Getenv", "os.Stat", "os.Open", "os.Create", "path/filepath.", "unicode.", "runtime.", "(*os.File).Close", "(*sync.", "(*golang.org/x/sync/semaphore."} {
		if strings.HasPrefix(name, p) {
			return true
		}
	}
	return false
}

func (e *Exec) ctz(t Term) Term {
	c := e.c
	w := t.Sort.W
	cur := bvLitI(64, int64(w))
	for i := w - 1; i >= 0; i-- {
		bit := c.def(bvSort(1), fmt.Sprintf("((_ extract %d %d) %s)", i, i, t.S))
		cur = c.ite(c.eq(bit, Term{"#b1", bvSort(1)}), bvLitI(64, int64(i)), cur)
	}
	return cur
}

func (e *Exec) clz(t Term) Term {
	c := e.c
	w := t.Sort.W
	cur := bvLitI(64, int64(w))
	for i := 0; i < w; i++ {
		bit := c.def(bvSort(1), fmt.Sprintf("((_ extract %d %d) %s)", i, i, t.S))
		cur = c.ite(c.eq(bit, Term{"#b1", bvSort(1)}), bvLitI(64, int64(w-1-i)), cur)
	}
	return cur
}

func (e *Exec) builtin(fr *frame, x *ssa.Call, b *ssa.Builtin, reach Term, st *State, setResult func([]Val)) Term {
	c := e.c
	var args []Val
	for _, a := range x.Call.Args {
		args = append(args, e.value(st, a))
	}
	intT := types.Typ[types.Int]
	switch b.Name() {
	case "len":
		switch t := args[0].Typ.Underlying().(type) {
		case *types.Slice:
			setResult([]Val{scalar(intT, args[0].L[2])})
		case *types.Basic:
			setResult([]Val{scalar(intT, c.app(bvSort(64), "strlen", args[0].T()))})
		case *types.Array:
			setResult([]Val{scalar(intT, bvLitI(64, t.Len()))})
		case *types.Pointer:
			setResult([]Val{scalar(intT, bvLitI(64, t.Elem().Underlying().(*types.Array).Len()))})
		default:
			if !e.abstractOK(fr) {
				e.fail("len of %s", args[0].Typ)
			}
			v := c.fresh(bvSort(64), "len")
			c.assume(c.implies(reach, c.app(sortBool, "bvsge", v, bvLitI(64, 0))), "")
			setResult([]Val{scalar(intT, v)})
		}
	case "cap":
		setResult([]Val{scalar(intT, args[0].L[3])})
	case "append":
		setResult([]Val{e.appendOp(args[0], args[1], reach, st, x)})
	case "copy":
		if !e.abstractOK(fr) {
			e.fail("copy builtin")
		}
		setResult([]Val{c.freshVal(intT, "copy")})
	case "print", "println":
	default:
		e.fail("builtin %s", b.Name())
	}
	return reach
}

// appendOp models append(s, t...) where t is backed by a tracked local array (varargs pack)
func (e *Exec) appendOp(s, t Val, reach Term, st *State, x *ssa.Call) Val {
	c := e.c
	bv64 := bvSort(64)
	el := s.Typ.Underlying().(*types.Slice).Elem()
	if t.Addr == nil {
		// appending an untracked slice: result arbitrary but well-formed, contents unknown
		r := c.freshVal(s.Typ, "append")
		c.assume(c.implies(reach, c.and(c.app(sortBool, "bvuge", r.L[2], s.L[2]), c.app(sortBool, "bvule", r.L[2], r.L[3]))), "")
		e.trusted["append of an untracked slice: result contents arbitrary"] = true
		return r
	}
	at := t.Addr.Typ.Underlying().(*types.Array)
	n := at.Len()
	ref, off, ln, cp := s.L[0], s.L[1], s.L[2], s.L[3]
	newLen := c.app(bv64, "bvadd", ln, bvLitI(64, n))
	fits := c.app(sortBool, "bvule", newLen, cp)
	newRef := c.fresh(sortRef, "grow")
	e.assumeFreshRef(newRef, st)
	newCap := c.fresh(bv64, "growcap")
	c.assume(c.and(c.app(sortBool, "bvuge", newCap, newLen), c.app(sortBool, "bvult", newCap, bvLitI(64, 1<<40))), "append capacity")
	rref := c.ite(fits, ref, newRef)
	rcap := c.ite(fits, cp, newCap)
	// copy the old backing array to the new object in the growing case
	for _, l := range leavesOf(el) {
		key := "[]" + typeKey(el) + l.Path
		full := arraySort(bv64, l.Sort)
		cur := c.cell(st.cells, key, arraySort(sortRef, full))
		st.cells[key] = c.ite(fits, cur, c.store(cur, newRef, c.sel(cur, ref)))
	}
	for i := int64(0); i < n; i++ {
		src := t.Addr.extend(Step{Field: -1, Idx: bvLitI(64, i), Len: n})
		v := c.load(st.cells, src)
		dst := e.sliceElemAddr(rref, c.app(bv64, "bvadd", off, c.app(bv64, "bvadd", ln, bvLitI(64, i))), el)
		c.storeAt(st.cells, dst, v)
	}
	return Val{Typ: s.Typ, L: []Term{rref, off, newLen, rcap}}
}

// afterCallAnchors: ghost updates and asserts anchored "call <callee> after"
func (e *Exec) afterCallAnchors(fr *frame, fn *ssa.Function, x *ssa.Call, reach Term, st *State, res []Val, args []Val) {
	if fr == nil || fr.spec == nil || len(e.curFn) != 1 {
		return
	}
	key := "call " + funcKey(fn)
	// "call X #k": the k-th call of X in source order; "#last": the last one
	ordKey, lastKey := "", ""
	{
		var poss []token.Pos
		for _, b := range fr.fi.Fn.Blocks {
			for _, in := range b.Instrs {
				if cl, ok := in.(*ssa.Call); ok {
					if sc := cl.Call.StaticCallee(); sc != nil && funcKey(sc) == funcKey(fn) {
						poss = append(poss, cl.Pos())
					}
				}
			}
		}
		sort.Slice(poss, func(i, j int) bool { return poss[i] < poss[j] })
		for i, p := range poss {
			if p == x.Pos() {
				ordKey = fmt.Sprintf("%s #%d", key, i+1)
				if i == len(poss)-1 {
					lastKey = key + " #last"
				}
			}
		}
	}
	match := func(anchor string) bool { return anchor == key || (ordKey != "" && anchor == ordKey) || (lastKey != "" && anchor == lastKey) }
	for _, gu := range fr.spec.GhostUpd {
		if match(gu.Anchor) {
			if fn.Pkg != nil && !strings.Contains(fn.Pkg.Pkg.Path(), "FrankyGo") {
				e.trusted[fmt.Sprintf("ghost update of %s at the call of %s.%s: the meaning given to that library call is an assumed contract of package %s", gu.Var, fn.Pkg.Pkg.Name(), funcKey(fn), fn.Pkg.Pkg.Path())] = true
			}
			env := fr.specEnv(st)
			env.result = res
			env.args = args
			v := e.evalSpec(gu.E, env)
			old, ok := e.ghost[gu.Var]
			if !ok {
				e.fail("unknown ghost variable %s", gu.Var)
			}
			v = env.typed(v, old.Typ)
			// ghost variables live in cells so that they merge at joins
			st.cells["l:ghost."+gu.Var] = v.T()
		}
	}
	for _, ct := range fr.spec.Cuts {
		if match(ct.Anchor) {
			// cut point: prove the formula, forget everything about the locations the unit may
			// assign, and continue from the formula alone
			env := fr.specEnv(st)
			env.result = res
			env.args = args
			g := e.evalSpecBool(ct.E, env, st, nil)
			label := ct.E.Label
			if label == "" {
				label = key
			}
			e.oblige("cut", label, reach, g, x.Pos())
			for _, a := range fr.spec.Assigns {
				e.havocLoc(a, fr.specEnv(st), st.cells, fn)
			}
			env2 := fr.specEnv(st)
			env2.result = res
			e.c.assume(e.c.implies(reach, e.evalSpecBool(ct.E, env2, st, nil)), "cut point")
		}
	}
	for _, as := range fr.spec.Asserts {
		if match(as.Anchor) {
			env := fr.specEnv(st)
			env.result = res
			env.args = args
			g := e.evalSpecBool(as.E, env, st, nil)
			label := as.E.Label
			if label == "" {
				label = key
			}
			e.oblige("assert", label, reach, g, x.Pos())
			// cover: the assertion site must be reachable (an assertion behind contradictory
			// assumptions proves nothing)
			if !e.c.dry && e.c.quiet == 0 {
				e.c.oblige(&Oblig{Name: e.unit + "#vacuity:assert-reachable:" + label, Kind: "vacuity", Fn: e.unit, Goal: e.c.not(reach), Props: e.props, Expect: "sat"})
			}
			e.c.assume(e.c.implies(reach, g), "")
		}
	}
}

// dynamicCallAnchors: ghost updates anchored "call dynamic" (a call through a function value whose
// target is not known statically, e.g. a handler taken from a table)
func (e *Exec) dynamicCallAnchors(fr *frame, st *State) { e.plainAnchors(fr, st, "call dynamic", nil) }

// plainAnchors: ghost updates at an anchor that is not a static call
func (e *Exec) plainAnchors(fr *frame, st *State, anchor string, res []Val) {
	if fr == nil || fr.spec == nil || len(e.curFn) != 1 {
		return
	}
	for _, gu := range fr.spec.GhostUpd {
		if gu.Anchor == anchor {
			env := fr.specEnv(st)
			env.result = res
			v := e.evalSpec(gu.E, env)
			old, ok := e.ghost[gu.Var]
			if !ok {
				e.fail("unknown ghost variable %s", gu.Var)
			}
			v = env.typed(v, old.Typ)
			st.cells["l:ghost."+gu.Var] = v.T()
		}
	}
}
