package main

import (
	"fmt"
	"os"

	"golang.org/x/tools/go/packages"
	"golang.org/x/tools/go/ssa"
	"golang.org/x/tools/go/ssa/ssautil"
)

func main() {
	cfg := &packages.Config{Mode: packages.LoadAllSyntax, Dir: "/repo", BuildFlags: []string{"-tags=verif"}, Env: append(os.Environ(), "GOFLAGS=-mod=mod", "GOPROXY=off", "GOSUMDB=off", "GOTOOLCHAIN=local")}
	pkgs, err := packages.Load(cfg, "./internal/...")
	if err != nil {
		panic(err)
	}
	prog, spkgs := ssautil.AllPackages(pkgs, ssa.InstantiateGenerics)
	prog.Build()
	for f := range ssautil.AllFunctions(prog) {
		if f.Pkg != nil && f.Pkg.Pkg.Name() == os.Args[1] && len(os.Args) >= 3 && f.Name() == os.Args[2] {
			f.WriteTo(os.Stdout)
		}
	}
	return
	for _, p := range spkgs {
		if p == nil {
			continue
		}
		if p.Pkg.Name() == os.Args[1] {
			for _, m := range p.Members {
				if f, ok := m.(*ssa.Function); ok && (len(os.Args) < 3 || f.Name() == os.Args[2]) {
					f.WriteTo(os.Stdout)
				}
			}
			if len(os.Args) >= 4 {
				t := p.Type(os.Args[2])
				ms := prog.MethodSets.MethodSet(t.Type())
				_ = ms
			}
		}
	}
	fmt.Println("done")
}
