package main

import (
	"runtime/debug"
	"runtime/pprof"
	"path/filepath"
	"flag"
	"fmt"
	"os"
	"sort"
	"strings"
	"time"
)

func main() {
	debug.SetGCPercent(400)
	if len(os.Args) < 2 {
		fmt.Fprintln(os.Stderr, "usage: govc <check|unit|list|ssa> ...")
		os.Exit(2)
	}
	cmd := os.Args[1]
	fs := flag.NewFlagSet(cmd, flag.ExitOnError)
	repo := fs.String("repo", "/repo", "repository root")
	tier := fs.String("tier", "quick", "quick|thorough")
	verif := fs.String("verif", "/verif", "verif root")
	verbose := fs.Bool("v", false, "verbose")
	keep := fs.Bool("keep", false, "keep SMT files")
	var pos []string
	args := os.Args[2:]
	for len(args) > 0 && !strings.HasPrefix(args[0], "-") {
		pos = append(pos, args[0])
		args = args[1:]
	}
	fs.Parse(args)
	pos = append(pos, fs.Args()...)
	switch cmd {
	case "ssa":
		p, err := loadProgram(*repo)
		if err != nil {
			fmt.Fprintln(os.Stderr, err)
			os.Exit(2)
		}
		for k, fn := range p.funcs {
			if len(pos) > 0 && strings.Contains(k, pos[0]) {
				fn.WriteTo(os.Stdout)
				fi := analyze(fn)
				for _, li := range fi.LoopOrd {
					fmt.Printf("# loop %d header block %d (%d blocks)\n", li.Ord, li.Header.Index, len(li.Body))
				}
			}
		}
	case "list":
		p, err := loadProgram(*repo)
		if err != nil {
			fmt.Fprintln(os.Stderr, err)
			os.Exit(2)
		}
		for _, k := range p.cs.Order {
			c := p.contracts[k]
			fmt.Printf("%-50s props=%v trusted=%v inline=%v\n", k, c.Props, c.Trusted, c.Inline)
		}
		for _, e := range p.cs.Errors {
			fmt.Println("ERROR", e)
		}
	case "unit":
		os.Exit(runUnits(*repo, *verif, pos, *tier, *verbose, *keep))
	case "check":
		if len(pos) != 1 {
			fmt.Fprintln(os.Stderr, "usage: govc check <property-id> [--tier quick|thorough]")
			os.Exit(2)
		}
		os.Exit(runCheck(*repo, *verif, pos[0], *tier, *verbose, *keep))
	case "replay":
		if len(pos) != 1 {
			fmt.Fprintln(os.Stderr, "usage: govc replay <replay-file>")
			os.Exit(2)
		}
		os.Exit(replayFile(*repo, pos[0]))
	default:
		fmt.Fprintln(os.Stderr, "unknown command", cmd)
		os.Exit(2)
	}
}

func solverCfg(verif, tier, tag string) *SolverCfg {
	cfg := &SolverCfg{FirstTimeout: 3 * time.Second, FullTimeout: 40 * time.Second, Workers: 16,
		NoBatch: true, WorkDir: fmt.Sprintf("%s/govc-work/%s-%d", os.TempDir(), tag, os.Getpid())}
	if tier == "thorough" {
		cfg.FullTimeout = 60 * time.Second
		cfg.Confirm = true
	}
	return cfg
}

// runUnits verifies the named units (substring match) and prints a report (developer command)
func runUnits(repo, verif string, names []string, tier string, verbose, keep bool) int {
	t0 := time.Now()
	if pf := os.Getenv("GOVC_PROF"); pf != "" {
		f, _ := os.Create(pf)
		pprof.StartCPUProfile(f)
		defer pprof.StopCPUProfile()
	}
	p, err := loadProgram(repo)
	if err != nil {
		fmt.Fprintln(os.Stderr, err)
		return 2
	}
	for _, e := range p.cs.Errors {
		fmt.Println("CONTRACT ERROR", e)
	}
	fmt.Printf("loaded in %.1fs\n", time.Since(t0).Seconds())
	p.loadSpecLib(verif)
	if err := p.dumpGround(verif); err != nil {
		fmt.Println("GROUND ERROR", err)
	}
	fmt.Printf("ground dump done at %.1fs\n", time.Since(t0).Seconds())
	var tasks []Task
	for _, k := range p.cs.Order {
		match := len(names) == 0
		for _, n := range names {
			if strings.Contains(k, n) {
				match = true
			}
		}
		if !match {
			continue
		}
		ct := p.contracts[k]
		if ct.Inline && len(ct.Ensures) == 0 {
			continue
		}
		if ct.IsLemma && len(ct.Enums) > 0 {
			continue // decided by exhaustive execution, below
		}
		tasks = append(tasks, p.unitTasks(ct)...)
	}
	cfg := solverCfg(verif, tier, "unit")
	cfg.Keep = keep
	cfg.NoSolve = os.Getenv("GOVC_NOSOLVE") != ""
	all, units := p.runPipeline(cfg, tasks)
	if len(names) > 0 {
		all = append(all, p.execObligations("", names)...)
	}
	for _, u := range units {
		if u.Err != "" {
			fmt.Printf("UNIT %s%s: ERROR %s\n", u.Name, u.Suffix, u.Err)
		}
	}
	bad := 0
	sort.Slice(all, func(i, j int) bool { return all[i].Name < all[j].Name })
	for _, o := range all {
		if !o.ok() {
			bad++
		}
		if verbose || !o.ok() {
			fmt.Printf("%-8s %-10s %6.2fs %7dB %s  (%s) %s\n", o.Status, o.Solver, o.Secs, o.SMTBytes, o.Name, o.Pos, filepath.Base(o.SMTFile))
			if !o.ok() && verbose {
				fmt.Println(indent(truncate(o.Output, 3000)))
			} else if o.Kind == "exhaustive" {
				fmt.Println(indent(truncate(o.Output, 300)))
			}
		}
	}
	for _, u := range units {
		for _, t := range u.Trusted {
			if verbose {
				fmt.Printf("TRUSTED [%s] %s\n", u.Name, t)
			}
		}
	}
	fmt.Printf("%d obligations, %d not discharged, %.1fs\n", len(all), bad, time.Since(t0).Seconds())
	if !keep && bad == 0 {
		os.RemoveAll(cfg.WorkDir)
	} else {
		fmt.Println("SMT files kept in", cfg.WorkDir)
	}
	if bad > 0 {
		return 1
	}
	return 0
}

func indent(s string) string { return "    " + strings.ReplaceAll(s, "\n", "\n    ") }

func truncate(s string, n int) string {
	if len(s) > n {
		return s[:n] + "..."
	}
	return s
}
