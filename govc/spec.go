package main

// Evaluation of contract expressions (Go expression syntax + old/forall/sum/... builtins)
// into SMT terms over the symbolic state.

import (
	"fmt"
	"go/ast"
	"go/constant"
	"go/parser"
	"go/token"
	"go/types"
	"math/big"
	"strconv"
	"strings"

	"golang.org/x/tools/go/ssa"
)

type SpecEnv struct {
	e      *Exec
	pkg    *types.Package
	vars   map[string]Val // bound variables (innermost binding wins)
	names  map[string]Val // source-level local names at this point
	params map[string]Val // entry values of the parameters
	cells  map[string]Term
	old    map[string]Term
	result []Val
	args   []Val // at a call anchor: the arguments of the anchored call (receiver first)
	depth  int
	bound  *binding
	guard  Term       // path condition inside the expression (ite / && / || / ==> branches)
	rec    *recTrack  // set while the body of a recursive spec function is unfolded
}

type recCall struct {
	guard Term
	args  []Val
}

type recTrack struct {
	sf    *SpecFunc
	calls []recCall
}

func (env *SpecEnv) withGuard(g Term) *SpecEnv {
	n := *env
	if env.guard.S == "" {
		n.guard = g
	} else {
		n.guard = env.e.c.and(env.guard, g)
	}
	return &n
}

// with binds a quantifier variable (linked list: no map copy per iteration)
func (env *SpecEnv) with(name string, v Val) *SpecEnv {
	n := *env
	n.bound = &binding{name, v, env.bound}
	return &n
}

type binding struct {
	name string
	v    Val
	next *binding
}

func (e *Exec) evalSpecBool(se SpecExpr, env *SpecEnv, st *State, old map[string]Term) Term {
	v := e.evalSpec(se, env)
	if len(v.L) != 1 || v.T().Sort.K != SBool {
		e.fail("spec expression %q is not boolean", se.Src)
	}
	return v.T()
}

func (e *Exec) evalSpecInt(se SpecExpr, env *SpecEnv, st *State, old map[string]Term) Term {
	v := e.evalSpec(se, env)
	if v.K != nil {
		return bvLit(64, v.K)
	}
	if len(v.L) != 1 || v.T().Sort.K != SBV {
		e.fail("spec expression %q is not an integer", se.Src)
	}
	return e.extend(v.T(), 64, isSigned(v.Typ))
}

func (e *Exec) evalSpec(se SpecExpr, env *SpecEnv) (out Val) {
	if se.E == nil {
		e.fail("spec expression %q did not parse", se.Src)
	}
	e.c.quiet++
	defer func() {
		e.c.quiet--
		if r := recover(); r != nil {
			if u, ok := r.(unsupported); ok {
				panic(unsupported{fmt.Sprintf("%s [in spec %q at %s]", u.msg, se.Src, se.Line)})
			}
			panic(r)
		}
	}()
	return env.eval(se.E)
}

var untypedInt = types.Typ[types.UntypedInt]

func constVal(k *big.Int) Val { return Val{Typ: untypedInt, K: k, L: []Term{bvLit(64, k)}} }

func (env *SpecEnv) fail(format string, a ...interface{}) { env.e.fail(format, a...) }

func (env *SpecEnv) lookupType(name string) types.Type {
	x, err := parser.ParseExpr(name)
	if err != nil {
		env.fail("bad type %q: %v", name, err)
	}
	return env.typeOfExpr(x)
}

func (env *SpecEnv) typeOfExpr(x ast.Expr) types.Type {
	switch n := x.(type) {
	case *ast.StarExpr:
		return types.NewPointer(env.typeOfExpr(n.X))
	case *ast.ParenExpr:
		return env.typeOfExpr(n.X)
	case *ast.ArrayType:
		el := env.typeOfExpr(n.Elt)
		if n.Len == nil {
			return types.NewSlice(el)
		}
		l := env.eval(n.Len)
		if l.K == nil {
			env.fail("array length must be constant")
		}
		return types.NewArray(el, l.K.Int64())
	case *ast.SelectorExpr:
		if id, ok := n.X.(*ast.Ident); ok {
			if p := env.e.prog.pkgByName(id.Name); p != nil {
				if o := p.Scope().Lookup(n.Sel.Name); o != nil {
					if tn, ok := o.(*types.TypeName); ok {
						return tn.Type()
					}
				}
			}
			// a library package imported by the package of the contract (e.g. time.Duration)
			if env.pkg != nil {
				for _, imp := range env.pkg.Imports() {
					if imp.Name() == id.Name {
						if o := imp.Scope().Lookup(n.Sel.Name); o != nil {
							if tn, ok := o.(*types.TypeName); ok {
								return tn.Type()
							}
						}
					}
				}
			}
		}
	case *ast.Ident:
		if o := types.Universe.Lookup(n.Name); o != nil {
			if tn, ok := o.(*types.TypeName); ok {
				return tn.Type()
			}
		}
		if o := env.lookupObj(n.Name); o != nil {
			if tn, ok := o.(*types.TypeName); ok {
				return tn.Type()
			}
		}
	}
	env.fail("unknown type %q", exprString(x))
	return nil
}

// lookupObj resolves a package-level name: own package, then the imported repo packages
func (env *SpecEnv) lookupObj(name string) types.Object {
	if env.pkg != nil {
		if o := env.pkg.Scope().Lookup(name); o != nil {
			return o
		}
		for _, imp := range env.pkg.Imports() {
			if strings.HasPrefix(imp.Path(), "github.com/frankkopp/FrankyGo/") {
				if o := imp.Scope().Lookup(name); o != nil {
					return o
				}
			}
		}
	}
	return nil
}

func (env *SpecEnv) eval(x ast.Expr) Val {
	e := env.e
	c := e.c
	switch n := x.(type) {
	case *ast.ParenExpr:
		return env.eval(n.X)
	case *ast.BasicLit:
		switch n.Kind {
		case token.INT:
			k, ok := new(big.Int).SetString(strings.ReplaceAll(n.Value, "_", ""), 0)
			if !ok {
				env.fail("bad int literal %s", n.Value)
			}
			return constVal(k)
		case token.STRING:
			s, _ := strconv.Unquote(n.Value)
			return scalar(types.Typ[types.String], c.strLit(s))
		case token.CHAR:
			s, _ := strconv.Unquote(n.Value)
			return constVal(big.NewInt(int64([]rune(s)[0])))
		case token.FLOAT:
			f, _ := strconv.ParseFloat(n.Value, 64)
			return scalar(types.Typ[types.Float64], floatLit(f))
		}
	case *ast.Ident:
		return env.ident(n.Name)
	case *ast.UnaryExpr:
		v := env.eval(n.X)
		switch n.Op {
		case token.NOT:
			return scalar(types.Typ[types.Bool], c.not(v.T()))
		case token.SUB:
			if v.K != nil {
				return constVal(new(big.Int).Neg(v.K))
			}
			if v.T().Sort.K == SFloat {
				return scalar(v.Typ, c.app(sortFloat, "fp.neg", v.T()))
			}
			return scalar(v.Typ, c.app(v.T().Sort, "bvneg", v.T()))
		case token.XOR:
			if v.K != nil {
				return constVal(new(big.Int).Not(v.K))
			}
			return scalar(v.Typ, e.foldNot(v.T()))
		case token.AND:
			// &x : address of
			return env.addrExpr(n.X)
		}
	case *ast.StarExpr:
		v := env.eval(n.X)
		a := e.addrOfPtr(v)
		out := c.load(env.cells, a)
		return out
	case *ast.BinaryExpr:
		return env.binary(n)
	case *ast.SelectorExpr:
		if a, _, ok := env.location(n); ok {
			return c.load(env.cells, a)
		}
		// pkg.Name ?
		if id, ok := n.X.(*ast.Ident); ok {
			if _, bound := env.lookupVar(id.Name); !bound {
				if p := e.prog.pkgByName(id.Name); p != nil {
					sub := *env
					sub.pkg = p
					return sub.ident(n.Sel.Name)
				}
			}
		}
		base := env.eval(n.X)
		return env.selectField(base, n.Sel.Name)
	case *ast.IndexExpr:
		if a, _, ok := env.location(n); ok {
			return c.load(env.cells, a)
		}
		base := env.eval(n.X)
		idx := env.eval(n.Index)
		return env.index(base, idx)
	case *ast.CallExpr:
		return env.callExpr(n)
	}
	env.fail("unsupported spec expression %T", x)
	return Val{}
}

// eval0 evaluates the dead branch of an ite (needed only for its shape); recursive
// applications in it are not tracked
func (env *SpecEnv) eval0(x ast.Expr) (out *Val) {
	n := *env
	n.rec = nil
	v := n.eval(x)
	return &v
}

func (env *SpecEnv) lookupVar(name string) (Val, bool) {
	for b := env.bound; b != nil; b = b.next {
		if b.name == name {
			return b.v, true
		}
	}
	if v, ok := env.vars[name]; ok {
		return v, true
	}
	if v, ok := env.e.ghost[name]; ok {
		return v, true
	}
	if v, ok := env.names[name]; ok {
		return v, true
	}
	if v, ok := env.params[name]; ok {
		return v, true
	}
	return Val{}, false
}

func (env *SpecEnv) ident(name string) Val {
	e := env.e
	switch name {
	case "true":
		return scalar(types.Typ[types.Bool], tTrue)
	case "false":
		return scalar(types.Typ[types.Bool], tFalse)
	case "nil":
		return scalar(types.Typ[types.UntypedNil], tNil)
	case "result":
		if len(env.result) == 0 {
			env.fail("`result` used where there is none")
		}
		return env.result[0]
	}
	if strings.HasPrefix(name, "result") && len(name) == 7 && name[6] >= '0' && name[6] <= '9' {
		i := int(name[6] - '0')
		if i >= len(env.result) {
			env.fail("%s out of range", name)
		}
		return env.result[i]
	}
	if strings.HasPrefix(name, "callarg") && len(name) == 8 && name[7] >= '0' && name[7] <= '9' && env.args != nil {
		i := int(name[7] - '0')
		if i >= len(env.args) {
			env.fail("%s out of range", name)
		}
		return env.args[i]
	}
	if v, ok := env.lookupVar(name); ok {
		if v.Deref && v.Addr != nil {
			out := e.c.load(env.cells, v.Addr)
			return out
		}
		return v
	}
	if o := env.lookupObj(name); o != nil {
		switch ob := o.(type) {
		case *types.Const:
			return e.constObj(ob)
		case *types.Var:
			// package-level variable
			g := e.prog.globalOf(ob)
			if g == nil {
				env.fail("no ssa global for %s", name)
			}
			gv := e.value(nil, g)
			return e.c.load(env.cells, gv.Addr)
		}
	}
	env.fail("unknown identifier %q in spec", name)
	return Val{}
}

func (e *Exec) constObj(ob *types.Const) Val {
	t := ob.Type()
	switch ob.Val().Kind() {
	case constant.Int:
		k, _ := new(big.Int).SetString(ob.Val().ExactString(), 10)
		if b, ok := t.Underlying().(*types.Basic); ok && b.Info()&types.IsUntyped != 0 {
			return constVal(k)
		}
		return scalar(t, bvLit(scalarSort(t).W, k))
	case constant.Bool:
		if constant.BoolVal(ob.Val()) {
			return scalar(types.Typ[types.Bool], tTrue)
		}
		return scalar(types.Typ[types.Bool], tFalse)
	case constant.String:
		return scalar(types.Typ[types.String], e.c.strLit(constant.StringVal(ob.Val())))
	case constant.Float:
		f, _ := constant.Float64Val(ob.Val())
		return scalar(types.Typ[types.Float64], floatLit(f))
	}
	e.fail("constant %s", ob)
	return Val{}
}

// typed turns an untyped constant into the given type
func (env *SpecEnv) typed(v Val, t types.Type) Val {
	if v.K == nil {
		return v
	}
	s := scalarSort(t)
	if s == nil || s.K != SBV {
		if s != nil && s.K == SFloat {
			f, _ := new(big.Float).SetInt(v.K).Float64()
			return scalar(t, floatLit(f))
		}
		env.fail("cannot convert constant to %s", t)
	}
	return scalar(t, bvLit(s.W, v.K))
}

func (env *SpecEnv) unify(a, b Val) (Val, Val) {
	switch {
	case a.K != nil && b.K != nil:
		return a, b
	case a.K != nil:
		return env.typed(a, b.Typ), b
	case b.K != nil:
		return a, env.typed(b, a.Typ)
	}
	return a, b
}

func (env *SpecEnv) binary(n *ast.BinaryExpr) Val {
	e := env.e
	c := e.c
	boolT := types.Typ[types.Bool]
	switch n.Op {
	case token.LAND:
		a := env.eval(n.X)
		if a.T().S == "false" {
			return a
		}
		b := env.withGuard(a.T()).eval(n.Y)
		return scalar(boolT, c.and(a.T(), b.T()))
	case token.LOR:
		a := env.eval(n.X)
		if a.T().S == "true" {
			return a
		}
		b := env.withGuard(c.not(a.T())).eval(n.Y)
		return scalar(boolT, c.or(a.T(), b.T()))
	}
	a, b := env.eval(n.X), env.eval(n.Y)
	if a.K != nil && b.K != nil {
		r := new(big.Int)
		cmpr := func(ok bool) Val {
			if ok {
				return scalar(boolT, tTrue)
			}
			return scalar(boolT, tFalse)
		}
		switch n.Op {
		case token.ADD:
			return constVal(r.Add(a.K, b.K))
		case token.SUB:
			return constVal(r.Sub(a.K, b.K))
		case token.MUL:
			return constVal(r.Mul(a.K, b.K))
		case token.QUO:
			return constVal(r.Quo(a.K, b.K))
		case token.REM:
			return constVal(r.Rem(a.K, b.K))
		case token.AND:
			return constVal(r.And(a.K, b.K))
		case token.OR:
			return constVal(r.Or(a.K, b.K))
		case token.XOR:
			return constVal(r.Xor(a.K, b.K))
		case token.SHL:
			return constVal(r.Lsh(a.K, uint(b.K.Int64())))
		case token.SHR:
			return constVal(r.Rsh(a.K, uint(b.K.Int64())))
		case token.EQL:
			return cmpr(a.K.Cmp(b.K) == 0)
		case token.NEQ:
			return cmpr(a.K.Cmp(b.K) != 0)
		case token.LSS:
			return cmpr(a.K.Cmp(b.K) < 0)
		case token.LEQ:
			return cmpr(a.K.Cmp(b.K) <= 0)
		case token.GTR:
			return cmpr(a.K.Cmp(b.K) > 0)
		case token.GEQ:
			return cmpr(a.K.Cmp(b.K) >= 0)
		}
	}
	if n.Op == token.SHL || n.Op == token.SHR {
		if a.K != nil {
			a = env.typed(a, types.Typ[types.Int])
		}
		if b.K != nil {
			b = env.typed(b, types.Typ[types.Uint64])
		}
		return scalar(a.Typ, e.shift(n.Op, a.T(), b, isSigned(a.Typ), tTrue, token.NoPos))
	}
	a, b = env.unify(a, b)
	rt := a.Typ
	switch n.Op {
	case token.EQL, token.NEQ, token.LSS, token.LEQ, token.GTR, token.GEQ:
		rt = boolT
	}
	if len(a.L) == 1 && len(b.L) == 1 && a.T().Sort.K == SBV && b.T().Sort.K == SBV && a.T().Sort.W != b.T().Sort.W {
		// operands of different widths (e.g. after a field changed its type): compare / combine
		// them as the integers they denote, in the wider type
		if a.T().Sort.W < b.T().Sort.W {
			a = scalar(b.Typ, e.extend(a.T(), b.T().Sort.W, isSigned(a.Typ)))
		} else {
			b = scalar(a.Typ, e.extend(b.T(), a.T().Sort.W, isSigned(b.Typ)))
		}
		if rt != boolT {
			rt = a.Typ
		}
	}
	saved := e.safety
	e.safety = false
	v, _ := e.binop(n.Op, a, b, rt, tTrue, token.NoPos)
	e.safety = saved
	return v
}

func (env *SpecEnv) selectField(base Val, name string) Val {
	e := env.e
	t := base.Typ
	if pt, ok := t.Underlying().(*types.Pointer); ok {
		st, ok := pt.Elem().Underlying().(*types.Struct)
		if !ok {
			env.fail("selector .%s on %s", name, t)
		}
		for i := 0; i < st.NumFields(); i++ {
			if st.Field(i).Name() == name {
				a := e.addrOfPtr(base).extend(Step{Field: i})
				return e.c.load(env.cells, a)
			}
		}
		env.fail("type %s has no field %s", pt.Elem(), name)
	}
	if st, ok := t.Underlying().(*types.Struct); ok {
		for i := 0; i < st.NumFields(); i++ {
			if st.Field(i).Name() == name {
				return fieldVal(base, i)
			}
		}
	}
	// projection of an array of structs onto one field (struct-of-arrays view)
	if at, ok := t.Underlying().(*types.Array); ok {
		if st, ok := at.Elem().Underlying().(*types.Struct); ok {
			off := 0
			for i := 0; i < st.NumFields(); i++ {
				n := len(leavesOf(st.Field(i).Type()))
				if st.Field(i).Name() == name {
					return Val{Typ: types.NewArray(st.Field(i).Type(), at.Len()), L: base.L[off : off+n]}
				}
				off += n
			}
		}
	}
	env.fail("selector .%s on %s", name, t)
	return Val{}
}

func (env *SpecEnv) index(base, idx Val) Val {
	e := env.e
	c := e.c
	if idx.K != nil {
		idx = env.typed(idx, types.Typ[types.Int])
	}
	i64 := e.toIndex(idx)
	switch bt := base.Typ.Underlying().(type) {
	case *types.Array:
		_ = bt
		return c.indexVal(base, i64)
	case *types.Slice:
		a := e.sliceElemAddr(base.L[0], c.app(bvSort(64), "bvadd", base.L[1], i64), bt.Elem())
		return c.load(env.cells, a)
	case *types.Basic:
		return scalar(types.Typ[types.Uint8], c.app(bvSort(8), "strat", base.T(), i64))
	}
	env.fail("index on %s", base.Typ)
	return Val{}
}

// addrExpr evaluates an expression that denotes a memory location to a pointer value with a
// structural address
func (env *SpecEnv) addrExpr(x ast.Expr) Val {
	a, t, ok := env.location(x)
	if !ok {
		env.fail("cannot take the address of this spec expression")
	}
	return Val{Typ: types.NewPointer(t), L: []Term{tNil}, Addr: a}
}

// location: address and type of an addressable spec expression (global, field through a
// pointer, array element, *p); ok=false when the expression is a plain value
func (env *SpecEnv) location(x ast.Expr) (*Addr, types.Type, bool) {
	e := env.e
	switch n := x.(type) {
	case *ast.ParenExpr:
		return env.location(n.X)
	case *ast.Ident:
		if _, bound := env.lookupVar(n.Name); bound {
			return nil, nil, false
		}
		if o := env.lookupObj(n.Name); o != nil {
			if ob, ok := o.(*types.Var); ok {
				if g := e.prog.globalOf(ob); g != nil {
					gv := e.value(nil, g)
					return gv.Addr, gv.Addr.Typ, true
				}
			}
		}
		return nil, nil, false
	case *ast.StarExpr:
		pv := env.eval(n.X)
		if _, ok := pv.Typ.Underlying().(*types.Pointer); !ok {
			return nil, nil, false
		}
		a := e.addrOfPtr(pv)
		return a, typeAt(a.Typ, a.Path), true
	case *ast.SelectorExpr:
		if id, ok := n.X.(*ast.Ident); ok {
			if _, bound := env.lookupVar(id.Name); !bound {
				if p := e.prog.pkgByName(id.Name); p != nil {
					sub := *env
					sub.pkg = p
					return sub.location(n.Sel)
				}
			}
		}
		var a *Addr
		var t types.Type
		if la, lt, ok := env.location(n.X); ok {
			a, t = la, lt
			if pt, isPtr := t.Underlying().(*types.Pointer); isPtr {
				// a pointer stored in memory: load it, then go through it
				pv := e.c.load(env.cells, a)
				pv.Typ = t
				a = e.addrOfPtr(pv)
				t = pt.Elem()
			}
		} else {
			base := env.eval(n.X)
			pt, isPtr := base.Typ.Underlying().(*types.Pointer)
			if !isPtr {
				return nil, nil, false
			}
			a = e.addrOfPtr(base)
			t = pt.Elem()
		}
		st, ok := t.Underlying().(*types.Struct)
		if !ok {
			return nil, nil, false
		}
		for i := 0; i < st.NumFields(); i++ {
			if st.Field(i).Name() == n.Sel.Name {
				return a.extend(Step{Field: i}), st.Field(i).Type(), true
			}
		}
		return nil, nil, false
	case *ast.IndexExpr:
		a, t, ok := env.location(n.X)
		if !ok {
			return nil, nil, false
		}
		at, isArr := t.Underlying().(*types.Array)
		if !isArr {
			return nil, nil, false
		}
		idx := env.eval(n.Index)
		if idx.K != nil {
			idx = env.typed(idx, types.Typ[types.Int])
		}
		return a.extend(Step{Field: -1, Idx: e.toIndex(idx), Len: at.Len()}), at.Elem(), true
	}
	return nil, nil, false
}

func (env *SpecEnv) callExpr(n *ast.CallExpr) Val {
	e := env.e
	c := e.c
	boolT := types.Typ[types.Bool]
	if id, ok := n.Fun.(*ast.Ident); ok {
		if _, shadow := env.lookupVar(id.Name); !shadow {
			switch id.Name {
			case "old":
				sub := *env
				sub.cells = env.old
				sub.names = nil
				return sub.eval(n.Args[0])
			case "implies":
				a := env.eval(n.Args[0])
				if a.T().S == "false" {
					return scalar(boolT, tTrue)
				}
				b := env.withGuard(a.T()).eval(n.Args[1])
				return scalar(boolT, c.implies(a.T(), b.T()))
			case "iff":
				a, b := env.eval(n.Args[0]), env.eval(n.Args[1])
				return scalar(boolT, c.eq(a.T(), b.T()))
			case "ite":
				cond := env.eval(n.Args[0])
				var av, bv Val
				switch cond.T().S {
				case "true":
					av = env.eval(n.Args[1])
					bv = av
					if x := env.eval0(n.Args[2]); x != nil {
						bv = *x
					}
				case "false":
					bv = env.eval(n.Args[2])
					av = bv
					if x := env.eval0(n.Args[1]); x != nil {
						av = *x
					}
				default:
					av = env.withGuard(cond.T()).eval(n.Args[1])
					bv = env.withGuard(c.not(cond.T())).eval(n.Args[2])
				}
				a, b := env.unify(av, bv)
				if a.K != nil {
					a, b = env.typed(a, types.Typ[types.Int]), env.typed(b, types.Typ[types.Int])
				}
				return c.iteVal(cond.T(), a, b)
			case "forall", "exists", "sum", "xorfold", "orfold", "count":
				return env.fold(id.Name, n)
			case "len":
				v := env.eval(n.Args[0])
				switch t := v.Typ.Underlying().(type) {
				case *types.Slice:
					return scalar(types.Typ[types.Int], v.L[2])
				case *types.Array:
					return constVal(big.NewInt(t.Len()))
				case *types.Basic:
					return scalar(types.Typ[types.Int], c.app(bvSort(64), "strlen", v.T()))
				}
				env.fail("len of %s", v.Typ)
			case "cap":
				v := env.eval(n.Args[0])
				return scalar(types.Typ[types.Int], v.L[3])
			case "sliceoff":
				v := env.eval(n.Args[0])
				return scalar(types.Typ[types.Int], v.L[1])
			case "elems":
				// the backing array of a slice as an array value (struct-of-arrays view), indexed
				// from the start of the backing store (add sliceoff for slices that were re-sliced)
				v := env.eval(n.Args[0])
				st, ok := v.Typ.Underlying().(*types.Slice)
				if !ok {
					env.fail("elems of %s", v.Typ)
				}
				out := Val{Typ: types.NewArray(st.Elem(), 1<<40)}
				for _, l := range leavesOf(st.Elem()) {
					key := "[]" + typeKey(st.Elem()) + l.Path
					full := arraySort(bvSort(64), l.Sort)
					cur := c.cell(env.cells, key, arraySort(sortRef, full))
					out.L = append(out.L, c.sel(cur, v.L[0]))
				}
				return out
			case "lockheld":
				// lockheld(m): the ghost flag of the mutex m (a package-level variable)
				a, _, ok := env.location(n.Args[0])
				if !ok || a.Kind != RGlobal {
					env.fail("lockheld: argument must be a package-level mutex")
				}
				fp, _ := pathKey(a.Typ, a.Path)
				key := "g:$lock." + strings.TrimPrefix(a.Key, "g:") + fp
				return scalar(boolT, c.cell(env.cells, key, sortBool))
			case "isnil":
				v := env.eval(n.Args[0])
				return scalar(boolT, e.ptrEq(v, scalar(types.Typ[types.UntypedNil], tNil)))
			case "popcount":
				v := env.eval(n.Args[0])
				return scalar(types.Typ[types.Int], e.popcount(v.T()))
			case "testbit":
				v := env.eval(n.Args[0])
				i := env.eval(n.Args[1])
				if i.K != nil {
					i = env.typed(i, types.Typ[types.Uint64])
				}
				w := v.T().Sort.W
				sh := e.shift(token.SHR, v.T(), i, false, tTrue, token.NoPos)
				return scalar(boolT, c.eq(c.app(v.T().Sort, "bvand", sh, bvLitI(w, 1)), bvLitI(w, 1)))
			case "store":
				a := env.eval(n.Args[0])
				i := env.eval(n.Args[1])
				if i.K != nil {
					i = env.typed(i, types.Typ[types.Int])
				}
				at := a.Typ.Underlying().(*types.Array)
				v := env.typed(env.eval(n.Args[2]), at.Elem())
				if len(v.L) == 1 && len(a.L) == 1 && a.L[0].Sort.Elem != nil && v.L[0].Sort.K == SBV && a.L[0].Sort.Elem.K == SBV && v.L[0].Sort.W != a.L[0].Sort.Elem.W {
					v = e.convert(v, at.Elem()) // Go conversion to the element type
				}
				out := Val{Typ: a.Typ}
				for k := range a.L {
					out.L = append(out.L, c.store(a.L[k], e.toIndex(i), v.L[k]))
				}
				return out
			case "fresh":
				// fresh(T): an arbitrary value of type T (ghost havoc)
				return c.freshVal(env.lookupType(exprString(n.Args[0])), "spec")
			case "uninterp":
				// uninterp("name", ResultType, args...) : uninterpreted function application
				return env.uninterp(n)
			case "smt":
				// smt("fname", ResultType, args...) : application of a function from the SMT spec library
				return env.uninterp(n)
			case "nooverflow_add":
				a, b := env.unify(env.eval(n.Args[0]), env.eval(n.Args[1]))
				op := "bvuaddo"
				if isSigned(a.Typ) {
					op = "bvsaddo"
				}
				_ = op
				// portable encoding: widen by one bit
				w := a.T().Sort.W
				ea, eb := e.extend(a.T(), w+1, isSigned(a.Typ)), e.extend(b.T(), w+1, isSigned(b.Typ))
				s := c.app(bvSort(w+1), "bvadd", ea, eb)
				back := e.extend(e.extend(s, w, false), w+1, isSigned(a.Typ))
				return scalar(boolT, c.eq(s, back))
			}
			// conversion T(x)?
			if len(n.Args) == 1 {
				if t := env.tryType(id.Name); t != nil {
					return env.convertTo(env.eval(n.Args[0]), t)
				}
			}
			// spec function
			if sf, ok := e.prog.cs.Specs[id.Name]; ok {
				return env.applySpec(sf, n.Args)
			}
			// plain Go function of the package
			if o := env.lookupObj(id.Name); o != nil {
				if f, ok := o.(*types.Func); ok {
					fn := e.prog.ssa.FuncValue(f)
					var args []Val
					sig := f.Type().(*types.Signature)
					for i, a := range n.Args {
						args = append(args, env.typed(env.eval(a), sig.Params().At(i).Type()))
					}
					return env.callPure(fn, args)
				}
			}
			env.fail("unknown function %q in spec", id.Name)
		}
	}
	if sel, ok := n.Fun.(*ast.SelectorExpr); ok {
		// pkg.Func(...) / pkg.Type(x)
		if id, ok := sel.X.(*ast.Ident); ok {
			if _, bound := env.lookupVar(id.Name); !bound {
				if p := e.prog.pkgByName(id.Name); p != nil {
					sub := *env
					sub.pkg = p
					call := *n
					call.Fun = sel.Sel
					// arguments are evaluated in the caller's package scope
					o := p.Scope().Lookup(sel.Sel.Name)
					switch ob := o.(type) {
					case *types.TypeName:
						return env.convertTo(env.eval(n.Args[0]), ob.Type())
					case *types.Func:
						fn := e.prog.ssa.FuncValue(ob)
						var args []Val
						sig := ob.Type().(*types.Signature)
						for i, a := range n.Args {
							args = append(args, env.typed(env.eval(a), sig.Params().At(i).Type()))
						}
						return env.callPure(fn, args)
					}
					env.fail("unknown %s.%s", id.Name, sel.Sel.Name)
				}
			}
		}
		// method call on a value
		recv := env.eval(sel.X)
		obj, _, _ := types.LookupFieldOrMethod(recv.Typ, true, env.pkg, sel.Sel.Name)
		if obj == nil && env.pkg != nil {
			// unexported method of another package: look it up with that package
			if nt := namedOf(recv.Typ); nt != nil && nt.Obj().Pkg() != nil {
				obj, _, _ = types.LookupFieldOrMethod(recv.Typ, true, nt.Obj().Pkg(), sel.Sel.Name)
			}
		}
		f, ok := obj.(*types.Func)
		if !ok {
			env.fail("no method %s on %s", sel.Sel.Name, recv.Typ)
		}
		fn := e.prog.ssa.FuncValue(f)
		sig := f.Type().(*types.Signature)
		// receiver adjustment
		rt := sig.Recv().Type()
		if _, wantPtr := rt.Underlying().(*types.Pointer); wantPtr {
			if _, isPtr := recv.Typ.Underlying().(*types.Pointer); !isPtr {
				recv = env.addrExpr(sel.X)
			}
		} else if pt, isPtr := recv.Typ.Underlying().(*types.Pointer); isPtr {
			_ = pt
			recv = c.load(env.cells, e.addrOfPtr(recv))
		}
		args := []Val{recv}
		for i, a := range n.Args {
			args = append(args, env.typed(env.eval(a), sig.Params().At(i).Type()))
		}
		return env.callPure(fn, args)
	}
	env.fail("unsupported call in spec")
	return Val{}
}

func namedOf(t types.Type) *types.Named {
	if p, ok := t.(*types.Pointer); ok {
		t = p.Elem()
	}
	n, _ := t.(*types.Named)
	return n
}

func exprString(x ast.Expr) string {
	switch n := x.(type) {
	case *ast.Ident:
		return n.Name
	case *ast.SelectorExpr:
		return exprString(n.X) + "." + n.Sel.Name
	case *ast.StarExpr:
		return "*" + exprString(n.X)
	case *ast.BasicLit:
		s, err := strconv.Unquote(n.Value)
		if err == nil {
			return s
		}
		return n.Value
	case *ast.ArrayType:
		if n.Len == nil {
			return "[]" + exprString(n.Elt)
		}
	}
	return "?"
}

func (env *SpecEnv) tryType(name string) types.Type {
	if o := types.Universe.Lookup(name); o != nil {
		if tn, ok := o.(*types.TypeName); ok {
			return tn.Type()
		}
		return nil
	}
	if o := env.lookupObj(name); o != nil {
		if tn, ok := o.(*types.TypeName); ok {
			return tn.Type()
		}
	}
	return nil
}

func (env *SpecEnv) convertTo(v Val, t types.Type) Val {
	if v.K != nil {
		return env.typed(v, t)
	}
	return env.e.convert(v, t)
}

// callPure inlines a real Go function inside a spec expression; it must not change memory
func (env *SpecEnv) callPure(fn *ssa.Function, args []Val) Val {
	e := env.e
	c := e.c
	if fn == nil {
		env.fail("no SSA for function")
	}
	if e.pureCalls[fullKey(fn)] {
		// the same uninterpreted function as at the call sites in the code of this unit
		var ats []Term
		var sorts []string
		for _, a := range args {
			for _, t := range a.L {
				ats = append(ats, t)
				sorts = append(sorts, t.Sort.String())
			}
		}
		rs := fn.Signature.Results()
		if rs.Len() != 1 {
			env.fail("purecalls: %s must have one result", fn.Name())
		}
		v := Val{Typ: rs.At(0).Type()}
		for li, l := range leavesOf(rs.At(0).Type()) {
			name := fmt.Sprintf("call_%s_%d_%d", sanitize(fullKey(fn)), 0, li)
			c.declareFun(name, sorts, l.Sort)
			v.L = append(v.L, c.app(l.Sort, name, ats...))
		}
		e.pureCallFacts(e.prog.contractOf(fn), fn, args, []Val{v}, env.cells)
		return v
	}
	// a contract marked pure+trusted/with ensures could be used instead; default: inline
	before := cloneCells(env.cells)
	saved := e.safety
	e.safety = false
	savedCF := e.curFn
	e.curFn = append(append([]*ssa.Function{}, e.curFn...), nil) // mark nested
	rets := e.runFunc(fn, args, cloneCells(env.cells), tTrue, nil)
	e.curFn = savedCF
	e.safety = saved
	if len(rets) == 0 {
		env.fail("pure call %s never returns", fn.Name())
	}
	for _, r := range rets {
		for k, t := range r.St.cells {
			if strings.HasPrefix(k, "l:") {
				continue
			}
			if t0, ok := before[k]; ok && t0.S == t.S {
				continue
			} else if !ok {
				if ti, ok2 := c.initial[k]; ok2 && ti.S == t.S {
					continue
				}
			}
			env.fail("function %s used in a spec modifies %s", fn.Name(), k)
		}
	}
	if len(rets[0].Res) == 0 {
		env.fail("pure call %s has no result", fn.Name())
	}
	cur := rets[len(rets)-1].Res[0]
	for i := len(rets) - 2; i >= 0; i-- {
		cur = c.iteVal(rets[i].Cond, rets[i].Res[0], cur)
	}
	return cur
}

func cloneCells(m map[string]Term) map[string]Term {
	n := make(map[string]Term, len(m))
	for k, v := range m {
		n[k] = v
	}
	return n
}

func (env *SpecEnv) applySpec(sf *SpecFunc, argx []ast.Expr) Val {
	e := env.e
	if len(argx) != len(sf.Params) {
		env.fail("spec %s expects %d arguments", sf.Name, len(sf.Params))
	}
	if env.depth > 40 {
		env.fail("spec recursion too deep at %s", sf.Name)
	}
	sub := *env
	sub.depth = env.depth + 1
	sub.pkg = e.prog.pkgByName(sf.Pkg)
	sub.vars = map[string]Val{}
	sub.names = nil
	sub.params = nil
	sub.bound = nil
	for i, p := range sf.Params {
		v := env.eval(argx[i])
		if p.Typ != "any" {
			pt := sub.lookupType(p.Typ)
			v = env.typed(v, pt)
			if len(v.L) == 1 && v.T().Sort.K == SBV {
				if ps := scalarSort(pt); ps != nil && ps.K == SBV && ps.W != v.T().Sort.W {
					env.fail("argument %s of spec %s: width mismatch (%s given)", p.Name, sf.Name, v.Typ)
				}
			}
			v.Typ = pt
		}
		sub.vars[p.Name] = v
	}
	if sf.Recursive && env.rec != nil && env.rec.sf == sf {
		var args []Val
		for _, p := range sf.Params {
			args = append(args, sub.vars[p.Name])
		}
		g := env.guard
		if g.S == "" {
			g = tTrue
		}
		env.rec.calls = append(env.rec.calls, recCall{g, args})
	}
	if sf.Opaque {
		return env.applyOpaque(sf, &sub)
	}
	sub.guard = env.guard
	sub.rec = env.rec
	out := e.evalSpec(sf.Body, &sub)
	if sf.Result != "" && sf.Result != "any" {
		rt := sub.lookupType(sf.Result)
		out = env.typed(out, rt)
		out.Typ = rt
	}
	return out
}

// fold implements forall/exists/sum/xorfold/orfold/count over constant bounds [lo, hi)
func (env *SpecEnv) fold(kind string, n *ast.CallExpr) Val {
	e := env.e
	c := e.c
	if len(n.Args) != 4 {
		env.fail("%s(i, lo, hi, body) expects 4 arguments", kind)
	}
	id, ok := n.Args[0].(*ast.Ident)
	if !ok {
		env.fail("%s: first argument must be an identifier", kind)
	}
	lo, hi := env.eval(n.Args[1]), env.eval(n.Args[2])
	if lo.K == nil || hi.K == nil {
		env.fail("%s: bounds must be constants", kind)
	}
	l, h := lo.K.Int64(), hi.K.Int64()
	if h-l > 4096 {
		env.fail("%s: range too large", kind)
	}
	var acc []Val
	for i := l; i < h; i++ {
		sub := env.with(id.Name, constVal(big.NewInt(i)))
		acc = append(acc, sub.eval(n.Args[3]))
	}
	boolT := types.Typ[types.Bool]
	switch kind {
	case "forall":
		var ts []Term
		for _, v := range acc {
			ts = append(ts, v.T())
		}
		return scalar(boolT, c.and(ts...))
	case "exists":
		var ts []Term
		for _, v := range acc {
			ts = append(ts, v.T())
		}
		return scalar(boolT, c.or(ts...))
	case "count":
		cur := bvLitI(64, 0)
		for _, v := range acc {
			cur = e.foldBV("bvadd", cur, c.ite(v.T(), bvLitI(64, 1), bvLitI(64, 0)), true)
		}
		return scalar(types.Typ[types.Int], cur)
	}
	if len(acc) == 0 {
		return constVal(big.NewInt(0))
	}
	op := map[string]string{"sum": "bvadd", "xorfold": "bvxor", "orfold": "bvor"}[kind]
	var typ types.Type
	for _, v := range acc {
		if v.K == nil {
			typ = v.Typ
			break
		}
	}
	if typ == nil {
		typ = types.Typ[types.Int]
	}
	// n-ary application: literals folded together, the rest kept flat so that the solvers'
	// AC-normalisation of bvadd/bvxor/bvor applies
	var terms []Term
	w := scalarSort(typ).W
	lit := big.NewInt(0)
	for _, v := range acc {
		t := env.typed(v, typ).T()
		if lv, ok := litValue(t); ok {
			switch op {
			case "bvadd":
				lit = new(big.Int).Add(lit, lv)
			case "bvxor":
				lit = new(big.Int).Xor(lit, lv)
			case "bvor":
				lit = new(big.Int).Or(lit, lv)
			}
			continue
		}
		terms = append(terms, t)
	}
	litT := bvLit(w, lit)
	if lv, _ := litValue(litT); lv.Sign() != 0 || len(terms) == 0 {
		terms = append(terms, litT)
	}
	if len(terms) == 1 {
		return scalar(typ, terms[0])
	}
	return scalar(typ, c.app(scalarSort(typ), op, terms...))
}

func (e *Exec) popcount(t Term) Term {
	c := e.c
	w := t.Sort.W
	cur := bvLitI(64, 0)
	for i := 0; i < w; i++ {
		bit := c.def(bvSort(1), fmt.Sprintf("((_ extract %d %d) %s)", i, i, t.S))
		cur = c.app(bvSort(64), "bvadd", cur, c.def(bvSort(64), fmt.Sprintf("((_ zero_extend 63) %s)", bit.S)))
	}
	return cur
}

// uninterp("name", T, args...) applies an uninterpreted (or library-defined) SMT function
func (env *SpecEnv) uninterp(n *ast.CallExpr) Val {
	e := env.e
	c := e.c
	name := exprString(n.Args[0])
	rt := env.lookupType(exprString(n.Args[1]))
	var args []Term
	var sorts []string
	for _, a := range n.Args[2:] {
		v := env.eval(a)
		if v.K != nil {
			v = env.typed(v, types.Typ[types.Int])
		}
		for _, t := range v.L {
			args = append(args, t)
			sorts = append(sorts, t.Sort.String())
		}
	}
	rs := scalarSort(rt)
	if rs == nil {
		env.fail("uninterp result type %s must be scalar", rt)
	}
	e.prog.declareUF(c, name, sorts, rs)
	if len(args) == 0 {
		return scalar(rt, Term{name, rs})
	}
	return scalar(rt, c.app(rs, name, args...))
}

// applyOpaque: an opaque spec function is an uninterpreted function of its (flattened)
// arguments; units that `reveal` it get the definitional equation instantiated at every
// application that occurs (no quantifier reaches the solver).
func (env *SpecEnv) applyOpaque(sf *SpecFunc, sub *SpecEnv) Val {
	e := env.e
	c := e.c
	if sf.Result == "" || sf.Result == "any" {
		env.fail("opaque spec %s needs a result type", sf.Name)
	}
	rt := sub.lookupType(sf.Result)
	rs := scalarSort(rt)
	if rs == nil {
		env.fail("opaque spec %s: result must be scalar", sf.Name)
	}
	var args []Term
	var sorts []string
	for _, p := range sf.Params {
		v := sub.vars[p.Name]
		if v.Addr != nil {
			env.fail("opaque spec %s: pointer argument %s (pass values)", sf.Name, p.Name)
		}
		if _, isPtr := v.Typ.Underlying().(*types.Pointer); isPtr && len(v.L) == 1 {
			// a pointer argument stands for the object it points to: the application is keyed by the
			// reference and by the current value of every field of that object
			args = append(args, v.L[0])
			sorts = append(sorts, v.L[0].Sort.String())
			obj := e.c.load(env.cells, e.addrOfPtr(v))
			for _, t := range obj.L {
				args = append(args, t)
				sorts = append(sorts, t.Sort.String())
			}
			continue
		}
		for _, t := range v.L {
			args = append(args, t)
			sorts = append(sorts, t.Sort.String())
		}
	}
	name := "spec_" + sf.Name
	hasArray := false
	for _, a := range args {
		if a.Sort.K == SArray {
			hasArray = true
		}
	}
	if e.reveal[sf.Name] || hasArray || sf.Recursive {
		return scalar(rt, env.opaqueConst(sf, sub, name, rt, rs, args, 0))
	}
	e.prog.declareUF(c, name, sorts, rs)
	var app Term
	if len(args) == 0 {
		app = Term{name, rs}
	} else {
		app = c.app(rs, name, args...)
	}
	return scalar(rt, app)
}

// opaqueConst: the application of an opaque spec function as a named constant, one per
// syntactically distinct argument list (sound: it only forgets congruence between arguments
// that are equal but written differently).  Arguments that are if-then-else terms (state merged
// at a join) are distributed over, so that facts known per branch still apply.  When the unit
// reveals the function the constant is defined by the body, and the definition is included
// only in queries whose goal mentions the symbol.
func (env *SpecEnv) opaqueConst(sf *SpecFunc, sub *SpecEnv, name string, rt types.Type, rs *Sort, args []Term, depth int) Term {
	e := env.e
	c := e.c
	if depth < 80 {
		for i, a := range args {
			info, ok := c.iteInfo[a.S]
			if !ok {
				info, ok = c.iteBV[a.S]
			}
			if ok {
				// all arguments that are if-then-else terms over the same condition are split together
				a1 := append([]Term{}, args...)
				a2 := append([]Term{}, args...)
				for k, ak := range args {
					ik, okk := c.iteInfo[ak.S]
					if !okk {
						ik, okk = c.iteBV[ak.S]
					}
					if okk && ik.cond.S == info.cond.S {
						a1[k], a2[k] = ik.a, ik.b
					}
				}
				_ = i
				return c.ite(info.cond, env.opaqueConst(sf, sub, name, rt, rs, a1, depth+1), env.opaqueConst(sf, sub, name, rt, rs, a2, depth+1))
			}
		}
	}
	var key strings.Builder
	key.WriteString(name)
	for _, a := range args {
		key.WriteString("|")
		key.WriteString(a.S)
	}
	if t, ok := c.revealedApp[key.String()]; ok {
		return t
	}
	app := c.fresh(rs, name)
	c.revealedApp[key.String()] = app
	c.symOfConst[app.S] = name
	c.appArgs[app.S] = append([]Term{}, args...)
	c.appOrder = append(c.appOrder, app.S)
	if e.reveal[sf.Name] && !sf.Recursive {
		// rebind the parameters to exactly these argument terms
		sub2 := *sub
		sub2.vars = map[string]Val{}
		k := 0
		for _, p := range sf.Params {
			v := sub.vars[p.Name]
			n := len(v.L)
			if pt, isPtr := v.Typ.Underlying().(*types.Pointer); isPtr && n == 1 {
				// pointer parameter: keep the pointer itself (the fields are read from the state)
				sub2.vars[p.Name] = v
				k += 1 + len(leavesOf(pt.Elem()))
				continue
			}
			nv := Val{Typ: v.Typ, L: args[k : k+n]}
			k += n
			sub2.vars[p.Name] = nv
		}
		body := e.evalSpec(sf.Body, &sub2)
		body = env.typed(body, rt)
		c.axiom(app.S, name, c.eq(app, body.T()))
	}
	return app
}
