package main

// Verification of one unit: a function against its contract, or a lemma harness.

import (
	"fmt"
	"go/ast"
	"go/parser"
	"go/token"
	"go/types"
	"os"
	"regexp"
	"sort"
	"strings"

	"golang.org/x/tools/go/ssa"
)

type Unit struct {
	Name    string
	Ct      *Contract
	Ctx     *Ctx
	Err     string
	Trusted []string
	Splits  [][]Term // extra hypotheses per split instance (each instance: list of equalities)
	SplitNm []string
	HSplits []HSplit // the hypothesis splits one by one (Splits/SplitNm is the product of those without `for`)
	Obligs  []*Oblig
	Suffix  string
	NObl    int
	Carve   map[string]Term // known-finding carve-out source -> term over the unit's entry state
}

// entry data of the unit under verification (for old(...) and parameter names)
type unitEntry struct {
	params map[string]Val
	cells  map[string]Term
	pkg    *types.Package
}

func (fr *frame) specEnv(st *State) *SpecEnv {
	e := fr.e
	ue := e.entry
	env := &SpecEnv{e: e, pkg: fr.fi.Fn.Pkg.Pkg, names: st.names, cells: st.cells, old: ue.cells, params: ue.params}
	if len(e.curFn) > 1 {
		// inside an inlined callee: its own parameters are the SSA params (in names)
		env.params = nil
	}
	env.vars = map[string]Val{}
	for name, gv := range e.ghost {
		if t, ok := st.cells["l:ghost."+name]; ok {
			env.vars[name] = scalar(gv.Typ, t)
		} else {
			env.vars[name] = gv
		}
	}
	return env
}

func (fr *frame) entryCells() map[string]Term { return fr.e.entry.cells }

// unitTasks: the instances of a contract.  `split` clauses over parameters and memory
// locations are instantiated by substitution (one symbolic execution per value, so that
// literal indices fold); other split expressions become case-split hypotheses inside each
// instance.  `split ... for l1, l2` restricts the instances to the clauses l1, l2; all other
// obligations are discharged once on the unsplit (fully symbolic) unit.
func (p *Program) unitTasks(ct *Contract) []Task {
	pnames := map[string]bool{}
	if ct.IsLemma {
		for _, prm := range ct.Params {
			pnames[prm.Name] = true
		}
	} else if ct.Fn != nil {
		for _, prm := range ct.Fn.Params {
			pnames[prm.Name()] = true
		}
	}
	var psplits []Split
	var forLabels []string
	for _, sp := range ct.Splits {
		if pnames[sp.Var] || isLocationExpr(sp.Var) {
			psplits = append(psplits, sp)
			forLabels = append(forLabels, sp.For...)
		} else if len(sp.For) == 0 {
			// an expression: one instance per value, the value substituted for the term
			psplits = append(psplits, sp)
		}
	}
	if len(psplits) == 0 {
		return []Task{{Ct: ct}}
	}
	type inst struct {
		sub map[string]int64
		suf string
	}
	insts := []inst{{map[string]int64{}, ""}}
	for _, sp := range psplits {
		var next []inst
		for _, in := range insts {
			for _, k := range sp.Vals {
				m := map[string]int64{}
				for a, b := range in.sub {
					m[a] = b
				}
				m[sp.Var] = int64(k)
				next = append(next, inst{m, fmt.Sprintf("%s[%s=%d]", in.suf, splitLabel(sp.Var), k)})
			}
		}
		insts = next
	}
	var out []Task
	// the case split must cover every value the precondition allows
	out = append(out, Task{Ct: ct, Suffix: "[split-exhaustive]", ExhaustOnly: true})
	if len(forLabels) > 0 {
		out = append(out, Task{Ct: ct, Drop: forLabels})
	}
	filter := os.Getenv("GOVC_INST")
	for _, in := range insts {
		if filter != "" && !strings.Contains(in.suf, filter) {
			continue
		}
		t := Task{Ct: ct, Subst: in.sub, Suffix: in.suf}
		if len(forLabels) > 0 {
			t.Keep = forLabels
		}
		out = append(out, t)
	}
	return out
}

// isLocationExpr: p.f, p.f[i], ... (a memory location whose entry value can be substituted)
func isLocationExpr(src string) bool {
	x, err := parseSpecExpr(src)
	if err != nil {
		return false
	}
	switch x.(type) {
	case *ast.SelectorExpr, *ast.IndexExpr:
		return true
	}
	return false
}

// applyStateSubst writes the literal values of location splits into the entry state
func (p *Program) applyStateSubst(e *Exec, env0 *SpecEnv, entry map[string]Term) {
	var keys []string
	for k := range e.subst {
		if isLocationExpr(k) {
			keys = append(keys, k)
		}
	}
	// shorter expressions first: p.nextPlayer is fixed before p.kingSquare[p.nextPlayer^1] is evaluated
	sort.Slice(keys, func(i, j int) bool {
		if len(keys[i]) != len(keys[j]) {
			return len(keys[i]) < len(keys[j])
		}
		return keys[i] < keys[j]
	})
	for _, k := range keys {
		x, _ := parseSpecExpr(k)
		av := env0.addrExpr(x)
		t := typeAt(av.Addr.Typ, av.Addr.Path)
		srt := scalarSort(t)
		if srt != nil && srt.K == SBool {
			lit := tFalse
			if e.subst[k] != 0 {
				lit = tTrue
			}
			e.c.storeAt(entry, av.Addr, scalar(t, lit))
			continue
		}
		if srt == nil || srt.K != SBV {
			e.fail("split location %s is not an integer cell", k)
		}
		e.c.storeAt(entry, av.Addr, scalar(t, bvLitI(srt.W, e.subst[k])))
	}
}

// applyTermSubst: case split on an expression by substituting the value for its term: the
// equation is assumed, and from here on the term is built as the literal, so that branches
// on it fold while the unit is executed
func (p *Program) applyTermSubst(e *Exec, env0 *SpecEnv, pnames map[string]bool) {
	var keys []string
	for k := range e.subst {
		if !pnames[k] && !isLocationExpr(k) {
			keys = append(keys, k)
		}
	}
	sort.Strings(keys)
	for _, k := range keys {
		x, err := parseSpecExpr(k)
		if err != nil {
			e.fail("split expression %q: %v", k, err)
		}
		e.c.quiet++
		v := env0.eval(x)
		e.c.quiet--
		if v.K != nil || len(v.L) != 1 || v.T().Sort.K != SBV {
			e.fail("split expression %q is not an integer term", k)
		}
		t := v.T()
		lit := bvLitI(t.Sort.W, e.subst[k])
		if _, isLit := litValue(t); isLit {
			e.c.assume(e.c.eq(t, lit), "case split "+k)
			continue
		}
		e.c.assume(e.c.eq(t, lit), "case split "+k)
		if e.c.substTerm == nil {
			e.c.substTerm = map[string]Term{}
		}
		e.c.substTerm[t.S] = lit
	}
}

func (p *Program) verifyUnit(ct *Contract, subst map[string]int64, suffix string, exhaustOnly ...bool) (u *Unit) {
	u = &Unit{Name: ct.Pkg + "." + ct.Key, Ct: ct, Ctx: newCtx(), Suffix: suffix}
	c := u.Ctx
	c.preamble = append(c.preamble, p.specLib)
	hidden := map[string]bool{}
	for _, h := range ct.Hide {
		hidden[h] = true
	}
	c.groundFn = func(key string) (interface{}, bool) {
		if hp := strings.SplitN(key[2:], ".", 3); len(hp) >= 2 && hidden[hp[0]+"."+hp[1]] {
			return nil, false
		}
		d, ok := p.groundLeaf(key)
		if ok {
			parts := strings.SplitN(key[2:], ".", 3)
			p.mu.Lock()
			p.usedGround[parts[0]+"."+parts[1]] = true
			p.mu.Unlock()
		}
		return d, ok
	}
	c.ufGlobals = func(key string) bool {
		parts := strings.SplitN(key[2:], ".", 3)
		g := parts[0] + "." + parts[1]
		return p.cs.Frozen[g] && !p.cs.Grounds[g]
	}
	e := &Exec{c: c, prog: p, unit: u.Name, props: ct.Props, trusted: map[string]bool{}, kindCnt: map[string]int{},
		safety: true, nilcheck: ct.NilCheck, nosplit: ct.NoSplit, abstractAll: ct.Abstract, assumeCalls: ct.AssumeCalls, callOrd: map[string]int{}, inlines: ct.Inlines, pureCalls: ct.PureCalls, pureFacts: ct.PureFacts, divAbstract: ct.DivAbstract, ghost: map[string]Val{}, reveal: map[string]bool{}}
	for _, r := range ct.Reveal {
		e.reveal[r] = true
	}
	defer func() {
		if r := recover(); r != nil {
			if us, ok := r.(unsupported); ok {
				u.Err = us.msg
			} else {
				panic(r)
			}
		}
		for t := range e.trusted {
			u.Trusted = append(u.Trusted, t)
		}
		sort.Strings(u.Trusted)
		u.Obligs = c.obligs
		if suffix != "" {
			for _, o := range u.Obligs {
				o.Name += suffix
			}
		}
	}()
	e.subst = subst
	e.exhaustOnly = len(exhaustOnly) > 0 && exhaustOnly[0]
	if ct.IsLemma {
		p.verifyLemma(e, ct, u)
		return
	}
	fn := ct.Fn
	if fn == nil {
		c.oblige(&Oblig{Name: u.Name + "#contract-target-missing", Kind: "contract-target-missing", Fn: u.Name, Goal: tFalse, Props: ct.Props})
		return
	}
	// parameters
	var args []Val
	params := map[string]Val{}
	for _, prm := range fn.Params {
		v := c.freshVal(prm.Type(), "p_"+prm.Name())
		if k, ok := subst[prm.Name()]; ok {
			if ss := scalarSort(prm.Type()); ss != nil && ss.K == SBool {
				if k != 0 {
					v = scalar(prm.Type(), tTrue)
				} else {
					v = scalar(prm.Type(), tFalse)
				}
			} else {
				v = scalar(prm.Type(), bvLitI(scalarSort(prm.Type()).W, k))
			}
		}
		if _, ok := prm.Type().Underlying().(*types.Pointer); ok {
			e.refs = append(e.refs, v.T())
			if !ct.NilCheck {
				c.assume(c.not(c.eq(v.T(), tNil)), "pointer parameter non-nil")
			}
		}
		if _, ok := prm.Type().Underlying().(*types.Slice); ok {
			c.assume(c.and(c.app(sortBool, "bvule", v.L[2], v.L[3]), c.app(sortBool, "bvult", v.L[3], bvLitI(64, 1<<40)),
				c.app(sortBool, "bvult", v.L[1], bvLitI(64, 1<<40))), "slice parameter well-formed")
		}
		args = append(args, v)
		params[prm.Name()] = v
	}
	entry := map[string]Term{}
	e.entry = &unitEntry{params: params, cells: entry, pkg: fn.Pkg.Pkg}
	env0 := &SpecEnv{e: e, pkg: fn.Pkg.Pkg, params: params, cells: entry, old: entry}
	p.applyStateSubst(e, env0, entry)
	// a name for the entry value behind every pointer-to-scalar parameter: the replay driver
	// reads it from the model (k<n>_p_<name>__deref)
	for _, prm := range fn.Params {
		pt, ok := prm.Type().Underlying().(*types.Pointer)
		if !ok || prm.Name() == "" || scalarSort(pt.Elem()) == nil {
			continue
		}
		func() {
			defer func() { recover() }()
			x, err := parseSpecExpr("*" + prm.Name())
			if err != nil {
				return
			}
			c.quiet++
			v := e.evalSpec(SpecExpr{Src: "*" + prm.Name(), E: x, Line: "replay"}, env0)
			c.quiet--
			if len(v.L) != 1 {
				return
			}
			d := c.freshVal(pt.Elem(), "p_"+prm.Name()+"__deref")
			c.assume(c.eq(d.T(), v.T()), "replay name of the entry value of *"+prm.Name())
		}()
	}
	// scratch locations: their entry values are arbitrary "poison" constants
	for _, sc := range ct.Scratch {
		tgs := e.assignTargets(sc, env0)
		if len(tgs) == 0 || tgs[0].addr == nil {
			e.fail("scratch location %q has no address", sc)
		}
		v := c.freshVal(tgs[0].typ, "poison")
		c.storeAt(entry, tgs[0].addr, v)
		for _, t := range v.L {
			e.poison = append(e.poison, t.S)
		}
	}
	// ghost variables
	for _, g := range ct.Ghosts {
		t := env0.lookupType(g.Typ)
		v := env0.typed(e.evalSpec(g.Init, env0), t)
		v.Typ = t
		e.ghost[g.Name] = v
		if len(v.L) == 1 {
			entry["l:ghost."+g.Name] = v.T() // a cell from the start: loops see ghost updates as modifications
		}
	}
	// requires
	var reqs []Term
	for _, r := range ct.Requires {
		t := e.evalSpecBool(r, env0, nil, nil)
		reqs = append(reqs, t)
		c.assume(t, "requires")
	}
	{
		pn := map[string]bool{}
		for n := range params {
			pn[n] = true
		}
		p.applyTermSubst(e, env0, pn)
	}
	// vacuity: the precondition must be satisfiable
	c.oblige(&Oblig{Name: u.Name + "#vacuity:requires-satisfiable", Kind: "vacuity", Fn: u.Name, Goal: tFalse, Props: ct.Props, Expect: "sat"})
	if e.exhaustOnly {
		p.splitExhaustive(e, ct, env0)
		return
	}
	// lemma instances requested by `use` clauses (over the entry state)
	for _, us := range ct.Uses {
		p.useLemma(e, ct, us, env0, tTrue)
	}
	for _, uf := range ct.Unfolds {
		p.unfoldSpec(e, uf, env0, tTrue)
	}
	// splits
	p.makeSplits(e, ct, env0, u)
	p.evalCarveOuts(e, env0, u)
	if ct.Trusted {
		e.trusted["contract of "+u.Name+" is trusted (body not verified)"] = true
		return
	}
	e.safety = !ct.NoSafety
	if ct.AssumeCalls {
		e.trusted["callee preconditions are assumed in this unit (control-flow accounting only)"] = true
	}
	if ct.NoSafety {
		e.trusted["implicit safety obligations (index, nil, division) are not generated for this unit: assumed"] = true
	}
	cells := cloneCells(entry)
	rets := e.runFunc(fn, args, cells, tTrue, ct)
	if len(rets) == 0 && len(ct.Ensures) > 0 {
		c.oblige(&Oblig{Name: u.Name + "#vacuity:returns", Kind: "vacuity", Fn: u.Name, Goal: tTrue, Props: ct.Props})
	}
	for _, r := range rets {
		post := &SpecEnv{e: e, pkg: fn.Pkg.Pkg, params: params, cells: r.St.cells, old: entry, result: r.Res, names: nil}
		post.vars = map[string]Val{}
		for name, gv := range e.ghost {
			if t, ok := r.St.cells["l:ghost."+name]; ok {
				post.vars[name] = scalar(gv.Typ, t)
			} else {
				post.vars[name] = gv
			}
		}
		for _, uf := range ct.UnfoldsAtReturn {
			p.unfoldSpec(e, uf, post, r.Cond)
		}
		for _, us := range ct.UsesAtReturn {
			p.useLemma(e, ct, us, post, r.Cond)
		}
		for i, en := range ct.Ensures {
			g := e.evalSpecBool(en, post, nil, nil)
			label := en.Label
			if label == "" {
				label = fmt.Sprintf("%d", i)
			}
			e.oblige("ensures", label, r.Cond, g, r.Pos)
			// later clauses may rely on earlier ones (each is proved before it is used)
			c.assume(c.implies(r.Cond, g), "earlier ensures")
		}
		if !ct.NoFrame {
			p.frameCheck(e, ct, fn, env0, entry, r)
		}
	}
	// non-interference: the result does not depend on the entry values of the scratch locations
	if len(e.poison) > 0 && len(rets) > 0 {
		var conds []Term
		for _, r := range rets {
			conds = append(conds, r.Cond)
		}
		var ts []Term
		for j := range rets[0].Res {
			cur := rets[len(rets)-1].Res[j]
			for i := len(rets) - 2; i >= 0; i-- {
				cur = c.iteVal(rets[i].Cond, rets[i].Res[j], cur)
			}
			ts = append(ts, cur.L...)
		}
		e.obligeRel("result", c.or(conds...), ts, token.NoPos)
	}
	// vacuity: some return is reachable under the precondition
	if len(rets) > 0 {
		var conds []Term
		for _, r := range rets {
			conds = append(conds, r.Cond)
		}
		c.oblige(&Oblig{Name: u.Name + "#vacuity:return-reachable", Kind: "vacuity", Fn: u.Name, Goal: c.not(c.or(conds...)), Props: ct.Props, Expect: "sat"})
	}
	return
}

// splitExhaustive: the values of the substitution splits (parameters, memory locations) must
// cover everything the precondition allows; proved on the unsubstituted unit
func (p *Program) splitExhaustive(e *Exec, ct *Contract, env *SpecEnv) {
	pnames := map[string]bool{}
	for n := range env.params {
		pnames[n] = true
	}
	for _, sp := range ct.Splits {
		if !pnames[sp.Var] && !isLocationExpr(sp.Var) && len(sp.For) > 0 {
			continue
		}
		x, err := parseSpecExpr(sp.Var)
		if err != nil {
			e.fail("split expression %q: %v", sp.Var, err)
		}
		v := env.eval(x)
		var alts []Term
		for _, k := range sp.Vals {
			if v.T().Sort.K == SBool {
				if k != 0 {
					alts = append(alts, v.T())
				} else {
					alts = append(alts, e.c.not(v.T()))
				}
				continue
			}
			alts = append(alts, e.c.eq(v.T(), bvLitI(v.T().Sort.W, int64(k))))
		}
		e.c.oblige(&Oblig{Name: e.unit + "#split-exhaustive:" + sp.Var, Label: sp.Var, Kind: "split-exhaustive", Fn: e.unit, Goal: e.c.or(alts...), Props: ct.Props})
	}
}

// splitLabel: a split expression as it appears in obligation names (no brackets, '=' or blanks, so
// that the suffix can be recognised and stripped)
func splitLabel(v string) string {
	return strings.NewReplacer("[", "(", "]", ")", "==", "~", "=", "~", " ", "").Replace(v)
}

// HSplit: one case split by hypothesis; For restricts it to the clauses with these labels
type HSplit struct {
	Var   string
	For   []string
	Eqs   []Term
	Names []string
}

var splitRe = regexp.MustCompile(`^(.+?)\s+in\s+(-?\d+)\.\.(-?\d+)$`)

func (p *Program) makeSplits(e *Exec, ct *Contract, env *SpecEnv, u *Unit) {
	// splits over parameters / memory locations are handled by substitution (unitTasks); only
	// other expressions are case-split by hypothesis here
	pnames := map[string]bool{}
	for n := range env.params {
		pnames[n] = true
	}
	hyp := func(sp Split) bool { return !pnames[sp.Var] && !isLocationExpr(sp.Var) && len(sp.For) > 0 }
	rest := 0
	for _, sp := range ct.Splits {
		if hyp(sp) {
			rest++
		}
	}
	if rest == 0 {
		return
	}
	u.Splits = [][]Term{nil}
	u.SplitNm = []string{""}
	for _, sp := range ct.Splits {
		if !hyp(sp) {
			continue
		}
		x, err := parseSpecExpr(sp.Var)
		if err != nil {
			e.fail("split expression %q: %v", sp.Var, err)
		}
		v := env.eval(x)
		{
			var alts []Term
			for _, k := range sp.Vals {
				alts = append(alts, e.c.eq(v.T(), bvLitI(v.T().Sort.W, int64(k))))
			}
			e.c.oblige(&Oblig{Name: u.Name + "#split-exhaustive:" + sp.Var, Label: sp.Var, Kind: "split-exhaustive", Fn: u.Name, Goal: e.c.or(alts...), Props: ct.Props})
		}
		hs := HSplit{Var: sp.Var, For: sp.For}
		for _, k := range sp.Vals {
			hs.Eqs = append(hs.Eqs, e.c.eq(v.T(), bvLitI(v.T().Sort.W, int64(k))))
			hs.Names = append(hs.Names, fmt.Sprintf("[%s=%d]", splitLabel(sp.Var), k))
		}
		u.HSplits = append(u.HSplits, hs)
		if len(sp.For) > 0 {
			continue // applied per obligation (expandJobs)
		}
		var ns [][]Term
		var nn []string
		for i, base := range u.Splits {
			for _, k := range sp.Vals {
				eq := e.c.eq(v.T(), bvLitI(v.T().Sort.W, int64(k)))
				ns = append(ns, append(append([]Term{}, base...), eq))
				nn = append(nn, fmt.Sprintf("%s[%s=%d]", u.SplitNm[i], splitLabel(sp.Var), k))
			}
		}
		u.Splits, u.SplitNm = ns, nn
	}
}

// frameCheck: every cell that differs from the entry state must be covered by `assigns`
func (p *Program) frameCheck(e *Exec, ct *Contract, fn *ssa.Function, env0 *SpecEnv, entry map[string]Term, r RetEdge) {
	c := e.c
	// allowed locations per cell key: list of (ref) for heap classes, or whole-cell
	type allow struct {
		whole bool
		refs  []Term
	}
	allowed := map[string]*allow{}
	for _, a := range ct.Assigns {
		for _, tg := range e.assignTargets(a, env0) {
			al := allowed[tg.key]
			if al == nil {
				al = &allow{}
				allowed[tg.key] = al
			}
			if tg.heap {
				al.refs = append(al.refs, tg.ref)
			} else {
				al.whole = true
			}
		}
	}
	var keys []string
	for k := range r.St.cells {
		keys = append(keys, k)
	}
	sort.Strings(keys)
	for _, k := range keys {
		t := r.St.cells[k]
		if strings.HasPrefix(k, "l:") {
			continue
		}
		t0, ok := entry[k]
		if !ok {
			t0, ok = c.initial[k]
			if !ok {
				continue
			}
		}
		if t0.S == t.S {
			continue
		}
		al := allowed[k]
		if al != nil && al.whole {
			continue
		}
		var goal Term
		if al == nil {
			// objects allocated by this call are not part of the caller-visible frame
			exp := t0
			if t0.Sort.K == SArray && t0.Sort.Idx.K == SRef {
				for _, ref := range e.fresh {
					exp = c.store(exp, ref, c.sel(t, ref))
				}
			}
			goal = c.eq(t, exp)
		} else {
			exp := t0
			for _, ref := range al.refs {
				exp = c.store(exp, ref, c.sel(t, ref))
			}
			for _, ref := range e.fresh {
				exp = c.store(exp, ref, c.sel(t, ref))
			}
			goal = c.eq(t, exp)
		}
		e.oblige("assigns", cellName(k), r.Cond, goal, r.Pos)
	}
}

// ---------------------------------------------------------------------------------------------
// lemmas

var doAssignRe = regexp.MustCompile(`^(\w+)\s*:=\s*(.*)$`)

func (p *Program) verifyLemma(e *Exec, ct *Contract, u *Unit) {
	c := e.c
	tp := p.pkgByName(ct.Pkg)
	params := map[string]Val{}
	entry := map[string]Term{}
	env0 := &SpecEnv{e: e, pkg: tp, params: params, cells: entry, old: entry}
	for _, prm := range ct.Params {
		t := env0.lookupType(prm.Typ)
		v := c.freshVal(t, "p_"+prm.Name)
		if k, ok := e.subst[prm.Name]; ok {
			v = scalar(t, bvLitI(scalarSort(t).W, k))
		}
		if _, ok := t.Underlying().(*types.Pointer); ok {
			e.refs = append(e.refs, v.T())
			c.assume(c.not(c.eq(v.T(), tNil)), "pointer parameter non-nil")
		}
		params[prm.Name] = v
	}
	e.entry = &unitEntry{params: params, cells: entry, pkg: tp}
	p.applyStateSubst(e, env0, entry)
	for _, r := range ct.Requires {
		c.assume(e.evalSpecBool(r, env0, nil, nil), "requires")
	}
	{
		pn := map[string]bool{}
		for n := range params {
			pn[n] = true
		}
		p.applyTermSubst(e, env0, pn)
	}
	c.oblige(&Oblig{Name: u.Name + "#vacuity:requires-satisfiable", Kind: "vacuity", Fn: u.Name, Goal: tFalse, Props: ct.Props, Expect: "sat"})
	if e.exhaustOnly {
		p.splitExhaustive(e, ct, env0)
		return
	}
	for _, us := range ct.Uses {
		p.useLemma(e, ct, us, env0, tTrue)
	}
	for _, uf := range ct.Unfolds {
		p.unfoldSpec(e, uf, env0, tTrue)
	}
	for _, in := range ct.Inducts {
		p.inductLemma(e, ct, in, env0)
	}
	p.makeSplits(e, ct, env0, u)
	p.evalCarveOuts(e, env0, u)
	st := &State{cells: cloneCells(entry), env: map[ssa.Value]Val{}, names: map[string]Val{}}
	reach := tTrue
	vars := map[string]Val{}
	for _, stmt := range ct.Body {
		src := stmt.Src
		target := ""
		if m := doAssignRe.FindStringSubmatch(src); m != nil {
			target, src = m[1], m[2]
		}
		x, err := parser.ParseExpr(src)
		if err != nil {
			e.fail("lemma statement %q: %v", src, err)
		}
		call, ok := x.(*ast.CallExpr)
		if !ok {
			e.fail("lemma statement %q is not a call", src)
		}
		env := &SpecEnv{e: e, pkg: tp, params: params, cells: st.cells, old: entry, vars: vars}
		fn, args := p.resolveCall(env, call)
		e.curFn = []*ssa.Function{nil}
		res, r2 := e.callStatic(nil, fn, args, reach, st, token.NoPos)
		e.curFn = nil
		reach = r2
		if target != "" && len(res) > 0 {
			nv := map[string]Val{}
			for k, v := range vars {
				nv[k] = v
			}
			nv[target] = res[0]
			vars = nv
		}
	}
	post := &SpecEnv{e: e, pkg: tp, params: params, cells: st.cells, old: entry, vars: vars}
	for i, en := range ct.Ensures {
		g := e.evalSpecBool(en, post, nil, nil)
		label := en.Label
		if label == "" {
			label = fmt.Sprintf("%d", i)
		}
		e.oblige("ensures", label, reach, g, token.NoPos)
		c.assume(c.implies(reach, g), "earlier ensures")
	}
	c.oblige(&Oblig{Name: u.Name + "#vacuity:end-reachable", Kind: "vacuity", Fn: u.Name, Goal: c.not(reach), Props: ct.Props, Expect: "sat"})
}

// resolveCall resolves f(args) / recv.m(args) in a lemma body to an ssa function and argument values
func (p *Program) resolveCall(env *SpecEnv, call *ast.CallExpr) (*ssa.Function, []Val) {
	e := env.e
	switch f := call.Fun.(type) {
	case *ast.Ident:
		o := env.lookupObj(f.Name)
		fo, ok := o.(*types.Func)
		if !ok {
			e.fail("lemma: unknown function %s", f.Name)
		}
		fn := p.ssa.FuncValue(fo)
		sig := fo.Type().(*types.Signature)
		var args []Val
		for i, a := range call.Args {
			args = append(args, env.typed(env.eval(a), sig.Params().At(i).Type()))
		}
		return fn, args
	case *ast.SelectorExpr:
		if id, ok := f.X.(*ast.Ident); ok {
			if _, bound := env.lookupVar(id.Name); !bound {
				if tp := p.pkgByName(id.Name); tp != nil {
					fo, ok := tp.Scope().Lookup(f.Sel.Name).(*types.Func)
					if !ok {
						e.fail("lemma: unknown function %s.%s", id.Name, f.Sel.Name)
					}
					sig := fo.Type().(*types.Signature)
					var args []Val
					for i, a := range call.Args {
						args = append(args, env.typed(env.eval(a), sig.Params().At(i).Type()))
					}
					return p.ssa.FuncValue(fo), args
				}
			}
		}
		recv := env.eval(f.X)
		var obj types.Object
		if nt := namedOf(recv.Typ); nt != nil && nt.Obj().Pkg() != nil {
			obj, _, _ = types.LookupFieldOrMethod(recv.Typ, true, nt.Obj().Pkg(), f.Sel.Name)
		}
		fo, ok := obj.(*types.Func)
		if !ok {
			e.fail("lemma: no method %s on %s", f.Sel.Name, recv.Typ)
		}
		sig := fo.Type().(*types.Signature)
		if _, wantPtr := sig.Recv().Type().Underlying().(*types.Pointer); wantPtr {
			if _, isPtr := recv.Typ.Underlying().(*types.Pointer); !isPtr {
				recv = env.addrExpr(f.X)
			}
		} else if _, isPtr := recv.Typ.Underlying().(*types.Pointer); isPtr {
			recv = e.c.load(env.cells, e.addrOfPtr(recv))
		}
		args := []Val{recv}
		for i, a := range call.Args {
			args = append(args, env.typed(env.eval(a), sig.Params().At(i).Type()))
		}
		return p.ssa.FuncValue(fo), args
	}
	e.fail("lemma: unsupported call form")
	return nil, nil
}

// evalCarveOuts evaluates the carve-out predicates of the known findings that name an
// obligation of this unit (over the unit's parameters and entry state)
func (p *Program) evalCarveOuts(e *Exec, env0 *SpecEnv, u *Unit) {
	u.Carve = map[string]Term{}
	for ob, ks := range p.known {
		if !strings.HasPrefix(ob, u.Name+"#") {
			continue
		}
		for _, k := range ks {
			if k.CarveOut == "" {
				continue
			}
			x, err := parseSpecExpr(k.CarveOut)
			if err != nil {
				e.fail("known finding carve-out %q: %v", k.CarveOut, err)
			}
			u.Carve[k.CarveOut] = e.evalSpecBool(SpecExpr{Src: k.CarveOut, E: x, Line: "known_findings.json"}, env0, nil, nil)
		}
	}
}

// useLemma instantiates a lemma of the contract files: its requires (and the ranges over which
// it was proved by case split) become obligations, its ensures assumptions.
func (p *Program) useLemma(e *Exec, ct *Contract, src string, env *SpecEnv, reach Term) {
	c := e.c
	if i := strings.Index(src, " when "); i >= 0 {
		cx, err := parseSpecExpr(src[i+6:])
		if err != nil {
			e.fail("use %q: %v", src, err)
		}
		cond := e.evalSpecBool(SpecExpr{Src: src[i+6:], E: cx, Line: "use"}, env, nil, nil)
		reach = c.and(reach, cond)
		src = strings.TrimSpace(src[:i])
	}
	x, err := parser.ParseExpr(src)
	if err != nil {
		e.fail("use %q: %v", src, err)
	}
	call, ok := x.(*ast.CallExpr)
	if !ok {
		e.fail("use %q: not a lemma application", src)
	}
	name := exprString(call.Fun)
	pkg := ct.Pkg
	if i := strings.Index(name, "."); i >= 0 {
		pkg, name = name[:i], name[i+1:]
	}
	lem := p.contracts[pkg+".lemma "+name]
	if lem == nil {
		e.fail("use: unknown lemma %s.%s", pkg, name)
	}
	if len(call.Args) != len(lem.Params) {
		e.fail("use %s: %d arguments for %d parameters", name, len(call.Args), len(lem.Params))
	}
	// a lemma may be used only where it is also verified: same property tags
	for _, pr := range ct.Props {
		found := false
		for _, lp := range lem.Props {
			if lp == pr {
				found = true
			}
		}
		if !found {
			e.fail("lemma %s is not tagged with property %s of its user %s", name, pr, ct.Key)
		}
	}
	tp := p.pkgByName(lem.Pkg)
	sub := &SpecEnv{e: e, pkg: tp, vars: map[string]Val{}, cells: env.cells, old: env.old}
	for i, prm := range lem.Params {
		t := sub.lookupType(prm.Typ)
		v := env.typed(e.evalSpec(SpecExpr{Src: src, E: call.Args[i], Line: "use"}, env), t)
		v.Typ = t
		sub.vars[prm.Name] = v
	}
	// ranges of the lemma's case splits
	for _, sp := range lem.Splits {
		v, ok := sub.vars[sp.Var]
		if !ok {
			e.fail("lemma %s: split over %s which is not a parameter", name, sp.Var)
		}
		var alts []Term
		for _, k := range sp.Vals {
			alts = append(alts, c.eq(v.T(), bvLitI(v.T().Sort.W, int64(k))))
		}
		g := c.or(alts...)
		e.oblige("requires@lemma "+name, "range-"+sp.Var, reach, g, token.NoPos)
	}
	for i, r := range lem.Requires {
		g := e.evalSpecBool(r, sub, nil, nil)
		label := r.Label
		if label == "" {
			label = fmt.Sprint(i)
		}
		e.oblige("requires@lemma "+name, label, reach, g, token.NoPos)
	}
	for _, en := range lem.Ensures {
		g := e.evalSpecBool(en, sub, nil, nil)
		c.assume(c.implies(reach, g), "lemma "+name)
	}
	p.mu.Lock()
	p.usedContracts[pkg+".lemma "+name] = true
	p.mu.Unlock()
}

type assignTarget struct {
	key  string
	heap bool
	ref  Term
	addr *Addr
	typ  types.Type
}

// assignTargets resolves an `assigns` entry to memory cells: p.f (a field, with everything
// below it), *p (a whole object), pkg.global, or s[*] (the elements of slice s)
func (e *Exec) assignTargets(src string, env *SpecEnv) []assignTarget {
	src = strings.TrimSpace(src)
	var out []assignTarget
	if strings.HasSuffix(src, "[*]") {
		x, err := parseSpecExpr(strings.TrimSuffix(src, "[*]"))
		if err != nil {
			e.fail("assigns entry %q: %v", src, err)
		}
		sv := env.eval(x)
		st, ok := sv.Typ.Underlying().(*types.Slice)
		if !ok {
			e.fail("assigns entry %q: not a slice", src)
		}
		for _, l := range leavesOf(st.Elem()) {
			out = append(out, assignTarget{key: "[]" + typeKey(st.Elem()) + l.Path, heap: true, ref: sv.L[0]})
		}
		return out
	}
	if strings.HasPrefix(src, "anyelems(") && strings.HasSuffix(src, ")") {
		// every backing array of this element type (an append may move the elements to a new array)
		x, err := parseSpecExpr(src[9 : len(src)-1])
		if err != nil {
			e.fail("assigns entry %q: %v", src, err)
		}
		sv := env.eval(x)
		st, ok := sv.Typ.Underlying().(*types.Slice)
		if !ok {
			e.fail("assigns entry %q: not a slice", src)
		}
		for _, l := range leavesOf(st.Elem()) {
			out = append(out, assignTarget{key: "[]" + typeKey(st.Elem()) + l.Path, heap: false})
		}
		return out
	}
	x, err := parseSpecExpr(src)
	if err != nil {
		e.fail("assigns entry %q: %v", src, err)
	}
	var ad *Addr
	if se, ok := x.(*ast.StarExpr); ok {
		ad = e.addrOfPtr(env.eval(se.X))
	} else {
		ad = env.addrExpr(x).Addr
	}
	t := typeAt(ad.Typ, ad.Path)
	fp, _ := pathKey(ad.Typ, ad.Path)
	for _, l := range leavesOf(t) {
		out = append(out, assignTarget{key: ad.Key + fp + l.Path, heap: ad.Kind == RHeap, ref: ad.Ref, addr: ad, typ: t})
	}
	return out
}


// unfoldSpec instantiates the defining equation of a recursive spec function at the given
// arguments: f(args) == body[args], the recursive applications inside the body staying opaque.
// Every recursive application must decrease the (non-negative) measure: obligation.
func (p *Program) unfoldSpec(e *Exec, src string, env *SpecEnv, reach Term) {
	c := e.c
	if i := strings.Index(src, " when "); i >= 0 {
		cx, err := parseSpecExpr(src[i+6:])
		if err != nil {
			e.fail("unfold %q: %v", src, err)
		}
		cond := e.evalSpecBool(SpecExpr{Src: src[i+6:], E: cx, Line: "unfold"}, env, nil, nil)
		reach = c.and(reach, cond)
		src = strings.TrimSpace(src[:i])
	}
	x, err := parseSpecExpr(src)
	if err != nil {
		e.fail("unfold %q: %v", src, err)
	}
	call, ok := x.(*ast.CallExpr)
	if !ok {
		e.fail("unfold %q: not an application", src)
	}
	id, ok := call.Fun.(*ast.Ident)
	if !ok {
		e.fail("unfold %q: not a spec function", src)
	}
	sf := p.cs.Specs[id.Name]
	if sf == nil || !sf.Recursive {
		e.fail("unfold %q: %s is not a recursive spec function", src, id.Name)
	}
	if len(call.Args) != len(sf.Params) {
		e.fail("unfold %q: wrong number of arguments", src)
	}
	e.c.quiet++
	app := env.applySpec(sf, call.Args)
	e.c.quiet--
	sub := *env
	sub.pkg = p.pkgByName(sf.Pkg)
	sub.vars = map[string]Val{}
	sub.names, sub.params, sub.bound = nil, nil, nil
	sub.depth = env.depth + 1
	for i, prm := range sf.Params {
		e.c.quiet++
		v := env.eval(call.Args[i])
		e.c.quiet--
		if prm.Typ != "any" {
			pt := sub.lookupType(prm.Typ)
			v = env.typed(v, pt)
			v.Typ = pt
		}
		sub.vars[prm.Name] = v
	}
	rec := &recTrack{sf: sf}
	sub.rec = rec
	sub.guard = tTrue
	body := e.evalSpec(sf.Body, &sub)
	rt := sub.lookupType(sf.Result)
	body = env.typed(body, rt)
	c.assume(c.implies(reach, c.eq(app.T(), body.T())), "unfolding of "+sf.Name)
	// termination
	sub.rec = nil
	m0 := e.evalSpecInt(sf.Measure, &sub, nil, nil)
	for _, rc := range rec.calls {
		s2 := sub
		s2.vars = map[string]Val{}
		for i, prm := range sf.Params {
			s2.vars[prm.Name] = rc.args[i]
		}
		m1 := e.evalSpecInt(sf.Measure, &s2, nil, nil)
		g := c.and(c.app(sortBool, "bvsge", m0, bvLitI(64, 0)), c.app(sortBool, "bvslt", m1, m0))
		e.oblige("spec-termination", sf.Name, c.and(reach, rc.guard), g, token.NoPos)
	}
	e.trusted["recursive spec function "+sf.Name+": defining equation instantiated by `unfold` (termination measure checked at every instance)"] = true
}

// inductLemma: the induction hypothesis of a lemma proved by well-founded induction on its
// measure: (requires(args') && 0 <= measure(args') < measure(args)) ==> ensures(args')
func (p *Program) inductLemma(e *Exec, ct *Contract, src string, env *SpecEnv) {
	c := e.c
	if !ct.IsLemma || ct.Measure == nil || len(ct.Body) > 0 {
		e.fail("induct: only in a lemma without statements that has a `measure` clause")
	}
	x, err := parser.ParseExpr(src)
	if err != nil {
		e.fail("induct %q: %v", src, err)
	}
	call, ok := x.(*ast.CallExpr)
	if !ok || exprString(call.Fun) != strings.TrimPrefix(ct.Key, "lemma ") {
		e.fail("induct %q: must be an application of the lemma itself", src)
	}
	if len(call.Args) != len(ct.Params) {
		e.fail("induct %q: wrong number of arguments", src)
	}
	tp := p.pkgByName(ct.Pkg)
	sub := &SpecEnv{e: e, pkg: tp, vars: map[string]Val{}, cells: env.cells, old: env.old}
	for i, prm := range ct.Params {
		t := sub.lookupType(prm.Typ)
		v := env.typed(e.evalSpec(SpecExpr{Src: src, E: call.Args[i], Line: "induct"}, env), t)
		v.Typ = t
		sub.vars[prm.Name] = v
	}
	m0 := e.evalSpecInt(*ct.Measure, env, nil, nil)
	m1 := e.evalSpecInt(*ct.Measure, sub, nil, nil)
	// the measure is non-negative wherever the lemma applies
	e.oblige("measure", "nonneg", tTrue, c.app(sortBool, "bvsge", m0, bvLitI(64, 0)), token.NoPos)
	hyp := []Term{c.app(sortBool, "bvsge", m1, bvLitI(64, 0)), c.app(sortBool, "bvslt", m1, m0)}
	for _, r := range ct.Requires {
		hyp = append(hyp, e.evalSpecBool(r, sub, nil, nil))
	}
	for _, sp := range ct.Splits {
		if v, ok := sub.vars[sp.Var]; ok {
			var alts []Term
			for _, k := range sp.Vals {
				alts = append(alts, c.eq(v.T(), bvLitI(v.T().Sort.W, int64(k))))
			}
			hyp = append(hyp, c.or(alts...))
		}
	}
	var concl []Term
	for _, en := range ct.Ensures {
		concl = append(concl, e.evalSpecBool(en, sub, nil, nil))
	}
	c.assume(c.implies(c.and(hyp...), c.and(concl...)), "induction hypothesis")
}
