package main

// Verification of one unit: a function against its contract, or a lemma harness.

import (
	"fmt"
	"go/ast"
	"go/parser"
	"go/token"
	"go/types"
	"regexp"
	"sort"
	"strings"

	"golang.org/x/tools/go/ssa"
)

type Unit struct {
	Name    string
	Ct      *Contract
	Ctx     *Ctx
	Err     string
	Trusted []string
	Splits  [][]Term // extra hypotheses per split instance (each instance: list of equalities)
	SplitNm []string
	Obligs  []*Oblig
	Carve   map[string]Term // known-finding carve-out source -> term over the unit's entry state
}

// entry data of the unit under verification (for old(...) and parameter names)
type unitEntry struct {
	params map[string]Val
	cells  map[string]Term
	pkg    *types.Package
}

func (fr *frame) specEnv(st *State) *SpecEnv {
	e := fr.e
	ue := e.prog.curEntry
	env := &SpecEnv{e: e, pkg: fr.fi.Fn.Pkg.Pkg, names: st.names, cells: st.cells, old: ue.cells, params: ue.params}
	if len(e.curFn) > 1 {
		// inside an inlined callee: its own parameters are the SSA params (in names)
		env.params = nil
	}
	env.vars = map[string]Val{}
	for name, gv := range e.ghost {
		if t, ok := st.cells["l:ghost."+name]; ok {
			env.vars[name] = scalar(gv.Typ, t)
		} else {
			env.vars[name] = gv
		}
	}
	return env
}

func (fr *frame) entryCells() map[string]Term { return fr.e.prog.curEntry.cells }

func (p *Program) verifyUnit(ct *Contract) (u *Unit) {
	u = &Unit{Name: ct.Pkg + "." + ct.Key, Ct: ct, Ctx: newCtx()}
	c := u.Ctx
	c.preamble = append(c.preamble, p.specLib)
	p.curRefs = nil
	e := &Exec{c: c, prog: p, unit: u.Name, props: ct.Props, trusted: map[string]bool{}, kindCnt: map[string]int{},
		safety: true, nilcheck: ct.NilCheck, ghost: map[string]Val{}}
	defer func() {
		if r := recover(); r != nil {
			if us, ok := r.(unsupported); ok {
				u.Err = us.msg
			} else {
				panic(r)
			}
		}
		for t := range e.trusted {
			u.Trusted = append(u.Trusted, t)
		}
		sort.Strings(u.Trusted)
		u.Obligs = c.obligs
	}()
	if ct.IsLemma {
		p.verifyLemma(e, ct, u)
		return
	}
	fn := ct.Fn
	if fn == nil {
		c.oblige(&Oblig{Name: u.Name + "#contract-target-missing", Kind: "contract-target-missing", Fn: u.Name, Goal: tFalse, Props: ct.Props})
		return
	}
	// parameters
	var args []Val
	params := map[string]Val{}
	for _, prm := range fn.Params {
		v := c.freshVal(prm.Type(), "p_"+prm.Name())
		if _, ok := prm.Type().Underlying().(*types.Pointer); ok {
			p.curRefs = append(p.curRefs, v.T())
			if !ct.NilCheck {
				c.assume(c.not(c.eq(v.T(), tNil)), "pointer parameter non-nil")
			}
		}
		if _, ok := prm.Type().Underlying().(*types.Slice); ok {
			c.assume(c.and(c.app(sortBool, "bvule", v.L[2], v.L[3]), c.app(sortBool, "bvult", v.L[3], bvLitI(64, 1<<40)),
				c.app(sortBool, "bvult", v.L[1], bvLitI(64, 1<<40))), "slice parameter well-formed")
		}
		args = append(args, v)
		params[prm.Name()] = v
	}
	entry := map[string]Term{}
	p.curEntry = &unitEntry{params: params, cells: entry, pkg: fn.Pkg.Pkg}
	env0 := &SpecEnv{e: e, pkg: fn.Pkg.Pkg, params: params, cells: entry, old: entry}
	// ghost variables
	for _, g := range ct.Ghosts {
		t := env0.lookupType(g.Typ)
		v := env0.typed(e.evalSpec(g.Init, env0), t)
		v.Typ = t
		e.ghost[g.Name] = v
	}
	// requires
	var reqs []Term
	for _, r := range ct.Requires {
		t := e.evalSpecBool(r, env0, nil, nil)
		reqs = append(reqs, t)
		c.assume(t, "requires")
	}
	// vacuity: the precondition must be satisfiable
	c.oblige(&Oblig{Name: u.Name + "#vacuity:requires-satisfiable", Kind: "vacuity", Fn: u.Name, Goal: tFalse, Props: ct.Props, Expect: "sat"})
	// splits
	p.makeSplits(e, ct, env0, u)
	p.evalCarveOuts(e, env0, u)
	if ct.Trusted {
		e.trusted["contract of "+u.Name+" is trusted (body not verified)"] = true
		return
	}
	e.safety = true
	cells := cloneCells(entry)
	rets := e.runFunc(fn, args, cells, tTrue, ct)
	if len(rets) == 0 && len(ct.Ensures) > 0 {
		c.oblige(&Oblig{Name: u.Name + "#vacuity:returns", Kind: "vacuity", Fn: u.Name, Goal: tTrue, Props: ct.Props})
	}
	for _, r := range rets {
		post := &SpecEnv{e: e, pkg: fn.Pkg.Pkg, params: params, cells: r.St.cells, old: entry, result: r.Res, names: nil}
		post.vars = map[string]Val{}
		for name, gv := range e.ghost {
			if t, ok := r.St.cells["l:ghost."+name]; ok {
				post.vars[name] = scalar(gv.Typ, t)
			} else {
				post.vars[name] = gv
			}
		}
		for i, en := range ct.Ensures {
			g := e.evalSpecBool(en, post, nil, nil)
			label := en.Label
			if label == "" {
				label = fmt.Sprintf("%d", i)
			}
			e.oblige("ensures", label, r.Cond, g, r.Pos)
		}
		if !ct.NoFrame {
			p.frameCheck(e, ct, fn, env0, entry, r)
		}
	}
	// vacuity: some return is reachable under the precondition
	if len(rets) > 0 {
		var conds []Term
		for _, r := range rets {
			conds = append(conds, r.Cond)
		}
		c.oblige(&Oblig{Name: u.Name + "#vacuity:return-reachable", Kind: "vacuity", Fn: u.Name, Goal: c.not(c.or(conds...)), Props: ct.Props, Expect: "sat"})
	}
	return
}

var splitRe = regexp.MustCompile(`^(.+?)\s+in\s+(-?\d+)\.\.(-?\d+)$`)

func (p *Program) makeSplits(e *Exec, ct *Contract, env *SpecEnv, u *Unit) {
	if len(ct.Splits) == 0 {
		return
	}
	u.Splits = [][]Term{nil}
	u.SplitNm = []string{""}
	for _, sp := range ct.Splits {
		x, err := parseSpecExpr(sp.Var)
		if err != nil {
			e.fail("split expression %q: %v", sp.Var, err)
		}
		v := env.eval(x)
		var ns [][]Term
		var nn []string
		for i, base := range u.Splits {
			for k := sp.Lo; k <= sp.Hi; k++ {
				eq := e.c.eq(v.T(), bvLitI(v.T().Sort.W, int64(k)))
				ns = append(ns, append(append([]Term{}, base...), eq))
				nn = append(nn, fmt.Sprintf("%s[%s=%d]", u.SplitNm[i], sp.Var, k))
			}
		}
		u.Splits, u.SplitNm = ns, nn
	}
}

// frameCheck: every cell that differs from the entry state must be covered by `assigns`
func (p *Program) frameCheck(e *Exec, ct *Contract, fn *ssa.Function, env0 *SpecEnv, entry map[string]Term, r RetEdge) {
	c := e.c
	// allowed locations per cell key: list of (ref) for heap classes, or whole-cell
	type allow struct {
		whole bool
		refs  []Term
	}
	allowed := map[string]*allow{}
	for _, a := range ct.Assigns {
		x, err := parseSpecExpr(a)
		if err != nil {
			e.fail("assigns entry %q: %v", a, err)
		}
		var ad *Addr
		if se, ok := x.(*ast.StarExpr); ok {
			ad = e.addrOfPtr(env0.eval(se.X))
		} else {
			ad = env0.addrExpr(x).Addr
		}
		t := typeAt(ad.Typ, ad.Path)
		fp, _ := pathKey(ad.Typ, ad.Path)
		for _, l := range leavesOf(t) {
			key := ad.Key + fp + l.Path
			al := allowed[key]
			if al == nil {
				al = &allow{}
				allowed[key] = al
			}
			if ad.Kind == RHeap {
				al.refs = append(al.refs, ad.Ref)
			} else {
				al.whole = true
			}
			// slices: the backing array contents may change too when the entry says so (x[*])
		}
	}
	var keys []string
	for k := range r.St.cells {
		keys = append(keys, k)
	}
	sort.Strings(keys)
	for _, k := range keys {
		t := r.St.cells[k]
		if strings.HasPrefix(k, "l:") {
			continue
		}
		t0, ok := entry[k]
		if !ok {
			t0, ok = c.initial[k]
			if !ok {
				continue
			}
		}
		if t0.S == t.S {
			continue
		}
		al := allowed[k]
		if al != nil && al.whole {
			continue
		}
		var goal Term
		if al == nil {
			goal = c.eq(t, t0)
		} else {
			exp := t0
			for _, ref := range al.refs {
				exp = c.store(exp, ref, c.sel(t, ref))
			}
			goal = c.eq(t, exp)
		}
		e.oblige("assigns", cellName(k), r.Cond, goal, r.Pos)
	}
}

// ---------------------------------------------------------------------------------------------
// lemmas

var doAssignRe = regexp.MustCompile(`^(\w+)\s*:=\s*(.*)$`)

func (p *Program) verifyLemma(e *Exec, ct *Contract, u *Unit) {
	c := e.c
	tp := p.pkgByName(ct.Pkg)
	params := map[string]Val{}
	entry := map[string]Term{}
	env0 := &SpecEnv{e: e, pkg: tp, params: params, cells: entry, old: entry}
	for _, prm := range ct.Params {
		t := env0.lookupType(prm.Typ)
		v := c.freshVal(t, "p_"+prm.Name)
		if _, ok := t.Underlying().(*types.Pointer); ok {
			p.curRefs = append(p.curRefs, v.T())
			c.assume(c.not(c.eq(v.T(), tNil)), "pointer parameter non-nil")
		}
		params[prm.Name] = v
	}
	p.curEntry = &unitEntry{params: params, cells: entry, pkg: tp}
	for _, r := range ct.Requires {
		c.assume(e.evalSpecBool(r, env0, nil, nil), "requires")
	}
	c.oblige(&Oblig{Name: u.Name + "#vacuity:requires-satisfiable", Kind: "vacuity", Fn: u.Name, Goal: tFalse, Props: ct.Props, Expect: "sat"})
	p.makeSplits(e, ct, env0, u)
	p.evalCarveOuts(e, env0, u)
	st := &State{cells: cloneCells(entry), env: map[ssa.Value]Val{}, names: map[string]Val{}}
	reach := tTrue
	vars := map[string]Val{}
	for _, stmt := range ct.Body {
		src := stmt.Src
		target := ""
		if m := doAssignRe.FindStringSubmatch(src); m != nil {
			target, src = m[1], m[2]
		}
		x, err := parser.ParseExpr(src)
		if err != nil {
			e.fail("lemma statement %q: %v", src, err)
		}
		call, ok := x.(*ast.CallExpr)
		if !ok {
			e.fail("lemma statement %q is not a call", src)
		}
		env := &SpecEnv{e: e, pkg: tp, params: params, cells: st.cells, old: entry, vars: vars}
		fn, args := p.resolveCall(env, call)
		e.curFn = []*ssa.Function{nil}
		res, r2 := e.callStatic(nil, fn, args, reach, st, token.NoPos)
		e.curFn = nil
		reach = r2
		if target != "" && len(res) > 0 {
			nv := map[string]Val{}
			for k, v := range vars {
				nv[k] = v
			}
			nv[target] = res[0]
			vars = nv
		}
	}
	post := &SpecEnv{e: e, pkg: tp, params: params, cells: st.cells, old: entry, vars: vars}
	for i, en := range ct.Ensures {
		g := e.evalSpecBool(en, post, nil, nil)
		label := en.Label
		if label == "" {
			label = fmt.Sprintf("%d", i)
		}
		e.oblige("ensures", label, reach, g, token.NoPos)
	}
	c.oblige(&Oblig{Name: u.Name + "#vacuity:end-reachable", Kind: "vacuity", Fn: u.Name, Goal: c.not(reach), Props: ct.Props, Expect: "sat"})
}

// resolveCall resolves f(args) / recv.m(args) in a lemma body to an ssa function and argument values
func (p *Program) resolveCall(env *SpecEnv, call *ast.CallExpr) (*ssa.Function, []Val) {
	e := env.e
	switch f := call.Fun.(type) {
	case *ast.Ident:
		o := env.lookupObj(f.Name)
		fo, ok := o.(*types.Func)
		if !ok {
			e.fail("lemma: unknown function %s", f.Name)
		}
		fn := p.ssa.FuncValue(fo)
		sig := fo.Type().(*types.Signature)
		var args []Val
		for i, a := range call.Args {
			args = append(args, env.typed(env.eval(a), sig.Params().At(i).Type()))
		}
		return fn, args
	case *ast.SelectorExpr:
		if id, ok := f.X.(*ast.Ident); ok {
			if _, bound := env.lookupVar(id.Name); !bound {
				if tp := p.pkgByName(id.Name); tp != nil {
					fo, ok := tp.Scope().Lookup(f.Sel.Name).(*types.Func)
					if !ok {
						e.fail("lemma: unknown function %s.%s", id.Name, f.Sel.Name)
					}
					sig := fo.Type().(*types.Signature)
					var args []Val
					for i, a := range call.Args {
						args = append(args, env.typed(env.eval(a), sig.Params().At(i).Type()))
					}
					return p.ssa.FuncValue(fo), args
				}
			}
		}
		recv := env.eval(f.X)
		var obj types.Object
		if nt := namedOf(recv.Typ); nt != nil && nt.Obj().Pkg() != nil {
			obj, _, _ = types.LookupFieldOrMethod(recv.Typ, true, nt.Obj().Pkg(), f.Sel.Name)
		}
		fo, ok := obj.(*types.Func)
		if !ok {
			e.fail("lemma: no method %s on %s", f.Sel.Name, recv.Typ)
		}
		sig := fo.Type().(*types.Signature)
		if _, wantPtr := sig.Recv().Type().Underlying().(*types.Pointer); wantPtr {
			if _, isPtr := recv.Typ.Underlying().(*types.Pointer); !isPtr {
				recv = env.addrExpr(f.X)
			}
		} else if _, isPtr := recv.Typ.Underlying().(*types.Pointer); isPtr {
			recv = e.c.load(env.cells, e.addrOfPtr(recv))
		}
		args := []Val{recv}
		for i, a := range call.Args {
			args = append(args, env.typed(env.eval(a), sig.Params().At(i).Type()))
		}
		return p.ssa.FuncValue(fo), args
	}
	e.fail("lemma: unsupported call form")
	return nil, nil
}

// evalCarveOuts evaluates the carve-out predicates of the known findings that name an
// obligation of this unit (over the unit's parameters and entry state)
func (p *Program) evalCarveOuts(e *Exec, env0 *SpecEnv, u *Unit) {
	u.Carve = map[string]Term{}
	for ob, ks := range p.known {
		if !strings.HasPrefix(ob, u.Name+"#") {
			continue
		}
		for _, k := range ks {
			if k.CarveOut == "" {
				continue
			}
			x, err := parseSpecExpr(k.CarveOut)
			if err != nil {
				e.fail("known finding carve-out %q: %v", k.CarveOut, err)
			}
			u.Carve[k.CarveOut] = e.evalSpecBool(SpecExpr{Src: k.CarveOut, E: x, Line: "known_findings.json"}, env0, nil, nil)
		}
	}
}
