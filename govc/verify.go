package main

// Verification of one unit: a function against its contract, or a lemma harness.

import (
	"fmt"
	"go/ast"
	"go/parser"
	"go/token"
	"go/types"
	"os"
	"regexp"
	"sort"
	"strings"

	"golang.org/x/tools/go/ssa"
)

type Unit struct {
	Name    string
	Ct      *Contract
	Ctx     *Ctx
	Err     string
	Trusted []string
	Splits  [][]Term // extra hypotheses per split instance (each instance: list of equalities)
	SplitNm []string
	Obligs  []*Oblig
	Suffix  string
	NObl    int
	Carve   map[string]Term // known-finding carve-out source -> term over the unit's entry state
}

// entry data of the unit under verification (for old(...) and parameter names)
type unitEntry struct {
	params map[string]Val
	cells  map[string]Term
	pkg    *types.Package
}

func (fr *frame) specEnv(st *State) *SpecEnv {
	e := fr.e
	ue := e.entry
	env := &SpecEnv{e: e, pkg: fr.fi.Fn.Pkg.Pkg, names: st.names, cells: st.cells, old: ue.cells, params: ue.params}
	if len(e.curFn) > 1 {
		// inside an inlined callee: its own parameters are the SSA params (in names)
		env.params = nil
	}
	env.vars = map[string]Val{}
	for name, gv := range e.ghost {
		if t, ok := st.cells["l:ghost."+name]; ok {
			env.vars[name] = scalar(gv.Typ, t)
		} else {
			env.vars[name] = gv
		}
	}
	return env
}

func (fr *frame) entryCells() map[string]Term { return fr.e.entry.cells }

// unitTasks: the instances of a contract.  `split` clauses over parameters and memory
// locations are instantiated by substitution (one symbolic execution per value, so that
// literal indices fold); other split expressions become case-split hypotheses inside each
// instance.  `split ... for l1, l2` restricts the instances to the clauses l1, l2; all other
// obligations are discharged once on the unsplit (fully symbolic) unit.
func (p *Program) unitTasks(ct *Contract) []Task {
	pnames := map[string]bool{}
	if ct.IsLemma {
		for _, prm := range ct.Params {
			pnames[prm.Name] = true
		}
	} else if ct.Fn != nil {
		for _, prm := range ct.Fn.Params {
			pnames[prm.Name()] = true
		}
	}
	var psplits []Split
	var forLabels []string
	for _, sp := range ct.Splits {
		if pnames[sp.Var] || isLocationExpr(sp.Var) {
			psplits = append(psplits, sp)
			forLabels = append(forLabels, sp.For...)
		}
	}
	if len(psplits) == 0 {
		return []Task{{Ct: ct}}
	}
	type inst struct {
		sub map[string]int64
		suf string
	}
	insts := []inst{{map[string]int64{}, ""}}
	for _, sp := range psplits {
		var next []inst
		for _, in := range insts {
			for _, k := range sp.Vals {
				m := map[string]int64{}
				for a, b := range in.sub {
					m[a] = b
				}
				m[sp.Var] = int64(k)
				next = append(next, inst{m, fmt.Sprintf("%s[%s=%d]", in.suf, sp.Var, k)})
			}
		}
		insts = next
	}
	var out []Task
	// the case split must cover every value the precondition allows
	out = append(out, Task{Ct: ct, Suffix: "[split-exhaustive]", ExhaustOnly: true})
	if len(forLabels) > 0 {
		out = append(out, Task{Ct: ct, Drop: forLabels})
	}
	filter := os.Getenv("GOVC_INST")
	for _, in := range insts {
		if filter != "" && !strings.Contains(in.suf, filter) {
			continue
		}
		t := Task{Ct: ct, Subst: in.sub, Suffix: in.suf}
		if len(forLabels) > 0 {
			t.Keep = forLabels
		}
		out = append(out, t)
	}
	return out
}

// isLocationExpr: p.f, p.f[i], ... (a memory location whose entry value can be substituted)
func isLocationExpr(src string) bool {
	x, err := parseSpecExpr(src)
	if err != nil {
		return false
	}
	switch x.(type) {
	case *ast.SelectorExpr, *ast.IndexExpr:
		return true
	}
	return false
}

// applyStateSubst writes the literal values of location splits into the entry state
func (p *Program) applyStateSubst(e *Exec, env0 *SpecEnv, entry map[string]Term) {
	var keys []string
	for k := range e.subst {
		if isLocationExpr(k) {
			keys = append(keys, k)
		}
	}
	// shorter expressions first: p.nextPlayer is fixed before p.kingSquare[p.nextPlayer^1] is evaluated
	sort.Slice(keys, func(i, j int) bool {
		if len(keys[i]) != len(keys[j]) {
			return len(keys[i]) < len(keys[j])
		}
		return keys[i] < keys[j]
	})
	for _, k := range keys {
		x, _ := parseSpecExpr(k)
		av := env0.addrExpr(x)
		t := typeAt(av.Addr.Typ, av.Addr.Path)
		srt := scalarSort(t)
		if srt == nil || srt.K != SBV {
			e.fail("split location %s is not an integer cell", k)
		}
		e.c.storeAt(entry, av.Addr, scalar(t, bvLitI(srt.W, e.subst[k])))
	}
}

func (p *Program) verifyUnit(ct *Contract, subst map[string]int64, suffix string, exhaustOnly ...bool) (u *Unit) {
	u = &Unit{Name: ct.Pkg + "." + ct.Key, Ct: ct, Ctx: newCtx(), Suffix: suffix}
	c := u.Ctx
	c.preamble = append(c.preamble, p.specLib)
	hidden := map[string]bool{}
	for _, h := range ct.Hide {
		hidden[h] = true
	}
	c.groundFn = func(key string) (interface{}, bool) {
		if hp := strings.SplitN(key[2:], ".", 3); len(hp) >= 2 && hidden[hp[0]+"."+hp[1]] {
			return nil, false
		}
		d, ok := p.groundLeaf(key)
		if ok {
			parts := strings.SplitN(key[2:], ".", 3)
			p.mu.Lock()
			p.usedGround[parts[0]+"."+parts[1]] = true
			p.mu.Unlock()
		}
		return d, ok
	}
	c.ufGlobals = func(key string) bool {
		parts := strings.SplitN(key[2:], ".", 3)
		g := parts[0] + "." + parts[1]
		return p.cs.Frozen[g] && !p.cs.Grounds[g]
	}
	e := &Exec{c: c, prog: p, unit: u.Name, props: ct.Props, trusted: map[string]bool{}, kindCnt: map[string]int{},
		safety: true, nilcheck: ct.NilCheck, nosplit: ct.NoSplit, ghost: map[string]Val{}, reveal: map[string]bool{}}
	for _, r := range ct.Reveal {
		e.reveal[r] = true
	}
	defer func() {
		if r := recover(); r != nil {
			if us, ok := r.(unsupported); ok {
				u.Err = us.msg
			} else {
				panic(r)
			}
		}
		for t := range e.trusted {
			u.Trusted = append(u.Trusted, t)
		}
		sort.Strings(u.Trusted)
		u.Obligs = c.obligs
		if suffix != "" {
			for _, o := range u.Obligs {
				o.Name += suffix
			}
		}
	}()
	e.subst = subst
	e.exhaustOnly = len(exhaustOnly) > 0 && exhaustOnly[0]
	if ct.IsLemma {
		p.verifyLemma(e, ct, u)
		return
	}
	fn := ct.Fn
	if fn == nil {
		c.oblige(&Oblig{Name: u.Name + "#contract-target-missing", Kind: "contract-target-missing", Fn: u.Name, Goal: tFalse, Props: ct.Props})
		return
	}
	// parameters
	var args []Val
	params := map[string]Val{}
	for _, prm := range fn.Params {
		v := c.freshVal(prm.Type(), "p_"+prm.Name())
		if k, ok := subst[prm.Name()]; ok {
			v = scalar(prm.Type(), bvLitI(scalarSort(prm.Type()).W, k))
		}
		if _, ok := prm.Type().Underlying().(*types.Pointer); ok {
			e.refs = append(e.refs, v.T())
			if !ct.NilCheck {
				c.assume(c.not(c.eq(v.T(), tNil)), "pointer parameter non-nil")
			}
		}
		if _, ok := prm.Type().Underlying().(*types.Slice); ok {
			c.assume(c.and(c.app(sortBool, "bvule", v.L[2], v.L[3]), c.app(sortBool, "bvult", v.L[3], bvLitI(64, 1<<40)),
				c.app(sortBool, "bvult", v.L[1], bvLitI(64, 1<<40))), "slice parameter well-formed")
		}
		args = append(args, v)
		params[prm.Name()] = v
	}
	entry := map[string]Term{}
	e.entry = &unitEntry{params: params, cells: entry, pkg: fn.Pkg.Pkg}
	env0 := &SpecEnv{e: e, pkg: fn.Pkg.Pkg, params: params, cells: entry, old: entry}
	p.applyStateSubst(e, env0, entry)
	// ghost variables
	for _, g := range ct.Ghosts {
		t := env0.lookupType(g.Typ)
		v := env0.typed(e.evalSpec(g.Init, env0), t)
		v.Typ = t
		e.ghost[g.Name] = v
	}
	// requires
	var reqs []Term
	for _, r := range ct.Requires {
		t := e.evalSpecBool(r, env0, nil, nil)
		reqs = append(reqs, t)
		c.assume(t, "requires")
	}
	// vacuity: the precondition must be satisfiable
	c.oblige(&Oblig{Name: u.Name + "#vacuity:requires-satisfiable", Kind: "vacuity", Fn: u.Name, Goal: tFalse, Props: ct.Props, Expect: "sat"})
	if e.exhaustOnly {
		p.splitExhaustive(e, ct, env0)
		return
	}
	// lemma instances requested by `use` clauses (over the entry state)
	for _, us := range ct.Uses {
		p.useLemma(e, ct, us, env0, tTrue)
	}
	// splits
	p.makeSplits(e, ct, env0, u)
	p.evalCarveOuts(e, env0, u)
	if ct.Trusted {
		e.trusted["contract of "+u.Name+" is trusted (body not verified)"] = true
		return
	}
	e.safety = true
	cells := cloneCells(entry)
	rets := e.runFunc(fn, args, cells, tTrue, ct)
	if len(rets) == 0 && len(ct.Ensures) > 0 {
		c.oblige(&Oblig{Name: u.Name + "#vacuity:returns", Kind: "vacuity", Fn: u.Name, Goal: tTrue, Props: ct.Props})
	}
	for _, r := range rets {
		post := &SpecEnv{e: e, pkg: fn.Pkg.Pkg, params: params, cells: r.St.cells, old: entry, result: r.Res, names: nil}
		post.vars = map[string]Val{}
		for name, gv := range e.ghost {
			if t, ok := r.St.cells["l:ghost."+name]; ok {
				post.vars[name] = scalar(gv.Typ, t)
			} else {
				post.vars[name] = gv
			}
		}
		for i, en := range ct.Ensures {
			g := e.evalSpecBool(en, post, nil, nil)
			label := en.Label
			if label == "" {
				label = fmt.Sprintf("%d", i)
			}
			e.oblige("ensures", label, r.Cond, g, r.Pos)
			// later clauses may rely on earlier ones (each is proved before it is used)
			c.assume(c.implies(r.Cond, g), "earlier ensures")
		}
		if !ct.NoFrame {
			p.frameCheck(e, ct, fn, env0, entry, r)
		}
	}
	// vacuity: some return is reachable under the precondition
	if len(rets) > 0 {
		var conds []Term
		for _, r := range rets {
			conds = append(conds, r.Cond)
		}
		c.oblige(&Oblig{Name: u.Name + "#vacuity:return-reachable", Kind: "vacuity", Fn: u.Name, Goal: c.not(c.or(conds...)), Props: ct.Props, Expect: "sat"})
	}
	return
}

// splitExhaustive: the values of the substitution splits (parameters, memory locations) must
// cover everything the precondition allows; proved on the unsubstituted unit
func (p *Program) splitExhaustive(e *Exec, ct *Contract, env *SpecEnv) {
	pnames := map[string]bool{}
	for n := range env.params {
		pnames[n] = true
	}
	for _, sp := range ct.Splits {
		if !pnames[sp.Var] && !isLocationExpr(sp.Var) {
			continue
		}
		x, err := parseSpecExpr(sp.Var)
		if err != nil {
			e.fail("split expression %q: %v", sp.Var, err)
		}
		v := env.eval(x)
		var alts []Term
		for _, k := range sp.Vals {
			alts = append(alts, e.c.eq(v.T(), bvLitI(v.T().Sort.W, int64(k))))
		}
		e.c.oblige(&Oblig{Name: e.unit + "#split-exhaustive:" + sp.Var, Label: sp.Var, Kind: "split-exhaustive", Fn: e.unit, Goal: e.c.or(alts...), Props: ct.Props})
	}
}

var splitRe = regexp.MustCompile(`^(.+?)\s+in\s+(-?\d+)\.\.(-?\d+)$`)

func (p *Program) makeSplits(e *Exec, ct *Contract, env *SpecEnv, u *Unit) {
	// splits over parameters / memory locations are handled by substitution (unitTasks); only
	// other expressions are case-split by hypothesis here
	pnames := map[string]bool{}
	for n := range env.params {
		pnames[n] = true
	}
	hyp := func(sp Split) bool { return !pnames[sp.Var] && !isLocationExpr(sp.Var) }
	rest := 0
	for _, sp := range ct.Splits {
		if hyp(sp) {
			rest++
		}
	}
	if rest == 0 {
		return
	}
	u.Splits = [][]Term{nil}
	u.SplitNm = []string{""}
	for _, sp := range ct.Splits {
		if !hyp(sp) {
			continue
		}
		x, err := parseSpecExpr(sp.Var)
		if err != nil {
			e.fail("split expression %q: %v", sp.Var, err)
		}
		v := env.eval(x)
		{
			var alts []Term
			for _, k := range sp.Vals {
				alts = append(alts, e.c.eq(v.T(), bvLitI(v.T().Sort.W, int64(k))))
			}
			e.c.oblige(&Oblig{Name: u.Name + "#split-exhaustive:" + sp.Var, Label: sp.Var, Kind: "split-exhaustive", Fn: u.Name, Goal: e.c.or(alts...), Props: ct.Props})
		}
		var ns [][]Term
		var nn []string
		for i, base := range u.Splits {
			for _, k := range sp.Vals {
				eq := e.c.eq(v.T(), bvLitI(v.T().Sort.W, int64(k)))
				ns = append(ns, append(append([]Term{}, base...), eq))
				nn = append(nn, fmt.Sprintf("%s[%s=%d]", u.SplitNm[i], sp.Var, k))
			}
		}
		u.Splits, u.SplitNm = ns, nn
	}
}

// frameCheck: every cell that differs from the entry state must be covered by `assigns`
func (p *Program) frameCheck(e *Exec, ct *Contract, fn *ssa.Function, env0 *SpecEnv, entry map[string]Term, r RetEdge) {
	c := e.c
	// allowed locations per cell key: list of (ref) for heap classes, or whole-cell
	type allow struct {
		whole bool
		refs  []Term
	}
	allowed := map[string]*allow{}
	for _, a := range ct.Assigns {
		for _, tg := range e.assignTargets(a, env0) {
			al := allowed[tg.key]
			if al == nil {
				al = &allow{}
				allowed[tg.key] = al
			}
			if tg.heap {
				al.refs = append(al.refs, tg.ref)
			} else {
				al.whole = true
			}
		}
	}
	var keys []string
	for k := range r.St.cells {
		keys = append(keys, k)
	}
	sort.Strings(keys)
	for _, k := range keys {
		t := r.St.cells[k]
		if strings.HasPrefix(k, "l:") {
			continue
		}
		t0, ok := entry[k]
		if !ok {
			t0, ok = c.initial[k]
			if !ok {
				continue
			}
		}
		if t0.S == t.S {
			continue
		}
		al := allowed[k]
		if al != nil && al.whole {
			continue
		}
		var goal Term
		if al == nil {
			// objects allocated by this call are not part of the caller-visible frame
			exp := t0
			if t0.Sort.K == SArray && t0.Sort.Idx.K == SRef {
				for _, ref := range e.fresh {
					exp = c.store(exp, ref, c.sel(t, ref))
				}
			}
			goal = c.eq(t, exp)
		} else {
			exp := t0
			for _, ref := range al.refs {
				exp = c.store(exp, ref, c.sel(t, ref))
			}
			for _, ref := range e.fresh {
				exp = c.store(exp, ref, c.sel(t, ref))
			}
			goal = c.eq(t, exp)
		}
		e.oblige("assigns", cellName(k), r.Cond, goal, r.Pos)
	}
}

// ---------------------------------------------------------------------------------------------
// lemmas

var doAssignRe = regexp.MustCompile(`^(\w+)\s*:=\s*(.*)$`)

func (p *Program) verifyLemma(e *Exec, ct *Contract, u *Unit) {
	c := e.c
	tp := p.pkgByName(ct.Pkg)
	params := map[string]Val{}
	entry := map[string]Term{}
	env0 := &SpecEnv{e: e, pkg: tp, params: params, cells: entry, old: entry}
	for _, prm := range ct.Params {
		t := env0.lookupType(prm.Typ)
		v := c.freshVal(t, "p_"+prm.Name)
		if k, ok := e.subst[prm.Name]; ok {
			v = scalar(t, bvLitI(scalarSort(t).W, k))
		}
		if _, ok := t.Underlying().(*types.Pointer); ok {
			e.refs = append(e.refs, v.T())
			c.assume(c.not(c.eq(v.T(), tNil)), "pointer parameter non-nil")
		}
		params[prm.Name] = v
	}
	e.entry = &unitEntry{params: params, cells: entry, pkg: tp}
	p.applyStateSubst(e, env0, entry)
	for _, r := range ct.Requires {
		c.assume(e.evalSpecBool(r, env0, nil, nil), "requires")
	}
	c.oblige(&Oblig{Name: u.Name + "#vacuity:requires-satisfiable", Kind: "vacuity", Fn: u.Name, Goal: tFalse, Props: ct.Props, Expect: "sat"})
	if e.exhaustOnly {
		p.splitExhaustive(e, ct, env0)
		return
	}
	for _, us := range ct.Uses {
		p.useLemma(e, ct, us, env0, tTrue)
	}
	p.makeSplits(e, ct, env0, u)
	p.evalCarveOuts(e, env0, u)
	st := &State{cells: cloneCells(entry), env: map[ssa.Value]Val{}, names: map[string]Val{}}
	reach := tTrue
	vars := map[string]Val{}
	for _, stmt := range ct.Body {
		src := stmt.Src
		target := ""
		if m := doAssignRe.FindStringSubmatch(src); m != nil {
			target, src = m[1], m[2]
		}
		x, err := parser.ParseExpr(src)
		if err != nil {
			e.fail("lemma statement %q: %v", src, err)
		}
		call, ok := x.(*ast.CallExpr)
		if !ok {
			e.fail("lemma statement %q is not a call", src)
		}
		env := &SpecEnv{e: e, pkg: tp, params: params, cells: st.cells, old: entry, vars: vars}
		fn, args := p.resolveCall(env, call)
		e.curFn = []*ssa.Function{nil}
		res, r2 := e.callStatic(nil, fn, args, reach, st, token.NoPos)
		e.curFn = nil
		reach = r2
		if target != "" && len(res) > 0 {
			nv := map[string]Val{}
			for k, v := range vars {
				nv[k] = v
			}
			nv[target] = res[0]
			vars = nv
		}
	}
	post := &SpecEnv{e: e, pkg: tp, params: params, cells: st.cells, old: entry, vars: vars}
	for i, en := range ct.Ensures {
		g := e.evalSpecBool(en, post, nil, nil)
		label := en.Label
		if label == "" {
			label = fmt.Sprintf("%d", i)
		}
		e.oblige("ensures", label, reach, g, token.NoPos)
		c.assume(c.implies(reach, g), "earlier ensures")
	}
	c.oblige(&Oblig{Name: u.Name + "#vacuity:end-reachable", Kind: "vacuity", Fn: u.Name, Goal: c.not(reach), Props: ct.Props, Expect: "sat"})
}

// resolveCall resolves f(args) / recv.m(args) in a lemma body to an ssa function and argument values
func (p *Program) resolveCall(env *SpecEnv, call *ast.CallExpr) (*ssa.Function, []Val) {
	e := env.e
	switch f := call.Fun.(type) {
	case *ast.Ident:
		o := env.lookupObj(f.Name)
		fo, ok := o.(*types.Func)
		if !ok {
			e.fail("lemma: unknown function %s", f.Name)
		}
		fn := p.ssa.FuncValue(fo)
		sig := fo.Type().(*types.Signature)
		var args []Val
		for i, a := range call.Args {
			args = append(args, env.typed(env.eval(a), sig.Params().At(i).Type()))
		}
		return fn, args
	case *ast.SelectorExpr:
		if id, ok := f.X.(*ast.Ident); ok {
			if _, bound := env.lookupVar(id.Name); !bound {
				if tp := p.pkgByName(id.Name); tp != nil {
					fo, ok := tp.Scope().Lookup(f.Sel.Name).(*types.Func)
					if !ok {
						e.fail("lemma: unknown function %s.%s", id.Name, f.Sel.Name)
					}
					sig := fo.Type().(*types.Signature)
					var args []Val
					for i, a := range call.Args {
						args = append(args, env.typed(env.eval(a), sig.Params().At(i).Type()))
					}
					return p.ssa.FuncValue(fo), args
				}
			}
		}
		recv := env.eval(f.X)
		var obj types.Object
		if nt := namedOf(recv.Typ); nt != nil && nt.Obj().Pkg() != nil {
			obj, _, _ = types.LookupFieldOrMethod(recv.Typ, true, nt.Obj().Pkg(), f.Sel.Name)
		}
		fo, ok := obj.(*types.Func)
		if !ok {
			e.fail("lemma: no method %s on %s", f.Sel.Name, recv.Typ)
		}
		sig := fo.Type().(*types.Signature)
		if _, wantPtr := sig.Recv().Type().Underlying().(*types.Pointer); wantPtr {
			if _, isPtr := recv.Typ.Underlying().(*types.Pointer); !isPtr {
				recv = env.addrExpr(f.X)
			}
		} else if _, isPtr := recv.Typ.Underlying().(*types.Pointer); isPtr {
			recv = e.c.load(env.cells, e.addrOfPtr(recv))
		}
		args := []Val{recv}
		for i, a := range call.Args {
			args = append(args, env.typed(env.eval(a), sig.Params().At(i).Type()))
		}
		return p.ssa.FuncValue(fo), args
	}
	e.fail("lemma: unsupported call form")
	return nil, nil
}

// evalCarveOuts evaluates the carve-out predicates of the known findings that name an
// obligation of this unit (over the unit's parameters and entry state)
func (p *Program) evalCarveOuts(e *Exec, env0 *SpecEnv, u *Unit) {
	u.Carve = map[string]Term{}
	for ob, ks := range p.known {
		if !strings.HasPrefix(ob, u.Name+"#") {
			continue
		}
		for _, k := range ks {
			if k.CarveOut == "" {
				continue
			}
			x, err := parseSpecExpr(k.CarveOut)
			if err != nil {
				e.fail("known finding carve-out %q: %v", k.CarveOut, err)
			}
			u.Carve[k.CarveOut] = e.evalSpecBool(SpecExpr{Src: k.CarveOut, E: x, Line: "known_findings.json"}, env0, nil, nil)
		}
	}
}

// useLemma instantiates a lemma of the contract files: its requires (and the ranges over which
// it was proved by case split) become obligations, its ensures assumptions.
func (p *Program) useLemma(e *Exec, ct *Contract, src string, env *SpecEnv, reach Term) {
	c := e.c
	x, err := parser.ParseExpr(src)
	if err != nil {
		e.fail("use %q: %v", src, err)
	}
	call, ok := x.(*ast.CallExpr)
	if !ok {
		e.fail("use %q: not a lemma application", src)
	}
	name := exprString(call.Fun)
	pkg := ct.Pkg
	if i := strings.Index(name, "."); i >= 0 {
		pkg, name = name[:i], name[i+1:]
	}
	lem := p.contracts[pkg+".lemma "+name]
	if lem == nil {
		e.fail("use: unknown lemma %s.%s", pkg, name)
	}
	if len(call.Args) != len(lem.Params) {
		e.fail("use %s: %d arguments for %d parameters", name, len(call.Args), len(lem.Params))
	}
	// a lemma may be used only where it is also verified: same property tags
	for _, pr := range ct.Props {
		found := false
		for _, lp := range lem.Props {
			if lp == pr {
				found = true
			}
		}
		if !found {
			e.fail("lemma %s is not tagged with property %s of its user %s", name, pr, ct.Key)
		}
	}
	tp := p.pkgByName(lem.Pkg)
	sub := &SpecEnv{e: e, pkg: tp, vars: map[string]Val{}, cells: env.cells, old: env.old}
	for i, prm := range lem.Params {
		t := sub.lookupType(prm.Typ)
		v := env.typed(e.evalSpec(SpecExpr{Src: src, E: call.Args[i], Line: "use"}, env), t)
		v.Typ = t
		sub.vars[prm.Name] = v
	}
	// ranges of the lemma's case splits
	for _, sp := range lem.Splits {
		v, ok := sub.vars[sp.Var]
		if !ok {
			e.fail("lemma %s: split over %s which is not a parameter", name, sp.Var)
		}
		var alts []Term
		for _, k := range sp.Vals {
			alts = append(alts, c.eq(v.T(), bvLitI(v.T().Sort.W, int64(k))))
		}
		g := c.or(alts...)
		e.oblige("requires@lemma "+name, "range-"+sp.Var, reach, g, token.NoPos)
	}
	for i, r := range lem.Requires {
		g := e.evalSpecBool(r, sub, nil, nil)
		label := r.Label
		if label == "" {
			label = fmt.Sprint(i)
		}
		e.oblige("requires@lemma "+name, label, reach, g, token.NoPos)
	}
	for _, en := range lem.Ensures {
		g := e.evalSpecBool(en, sub, nil, nil)
		c.assume(c.implies(reach, g), "lemma "+name)
	}
	p.mu.Lock()
	p.usedContracts[pkg+".lemma "+name] = true
	p.mu.Unlock()
}

type assignTarget struct {
	key  string
	heap bool
	ref  Term
	addr *Addr
	typ  types.Type
}

// assignTargets resolves an `assigns` entry to memory cells: p.f (a field, with everything
// below it), *p (a whole object), pkg.global, or s[*] (the elements of slice s)
func (e *Exec) assignTargets(src string, env *SpecEnv) []assignTarget {
	src = strings.TrimSpace(src)
	var out []assignTarget
	if strings.HasSuffix(src, "[*]") {
		x, err := parseSpecExpr(strings.TrimSuffix(src, "[*]"))
		if err != nil {
			e.fail("assigns entry %q: %v", src, err)
		}
		sv := env.eval(x)
		st, ok := sv.Typ.Underlying().(*types.Slice)
		if !ok {
			e.fail("assigns entry %q: not a slice", src)
		}
		for _, l := range leavesOf(st.Elem()) {
			out = append(out, assignTarget{key: "[]" + typeKey(st.Elem()) + l.Path, heap: true, ref: sv.L[0]})
		}
		return out
	}
	x, err := parseSpecExpr(src)
	if err != nil {
		e.fail("assigns entry %q: %v", src, err)
	}
	var ad *Addr
	if se, ok := x.(*ast.StarExpr); ok {
		ad = e.addrOfPtr(env.eval(se.X))
	} else {
		ad = env.addrExpr(x).Addr
	}
	t := typeAt(ad.Typ, ad.Path)
	fp, _ := pathKey(ad.Typ, ad.Path)
	for _, l := range leavesOf(t) {
		out = append(out, assignTarget{key: ad.Key + fp + l.Path, heap: ad.Kind == RHeap, ref: ad.Ref, addr: ad, typ: t})
	}
	return out
}
